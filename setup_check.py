"""MANIFEST.setup_cmd: make sure the tooling the checks need is importable offline (pure Python repo:
nothing to compile). Installs into /verif/.deps only what /venv lacks."""
import os
import sys

sys.path.insert(0, os.path.dirname(os.path.abspath(__file__)))
from vlib import env  # noqa: E402

env.ensure_deps(need_atheris=True)
fl = env.import_fuzzylite()
import hypothesis  # noqa: E402
import numpy  # noqa: E402

print("setup ok: fuzzylite", fl.__version__, "from", os.path.dirname(fl.__file__), "| hypothesis",
      hypothesis.__version__, "| numpy", numpy.__version__)
try:
    import atheris  # noqa: F401

    print("atheris available")
except Exception as ex:  # atheris is optional: fuzz campaigns fall back to Hypothesis-driven mutation
    print("atheris NOT available:", ex)
