#!/bin/bash
# Development helper: run every registered check's quick (or $1) tier on /repo, sequentially, and summarise.
cd "$(dirname "$0")"
tier=${1:-quick}
rc=0
for p in C01 C02 C03 C04 C05 C06 C07 C08 C09 C10 C11 C12 C13 C14 C15 C16 C17 C18 C19 C20; do
  out=$(/venv/bin/python run.py $p --tier $tier 2>&1); r=$?
  echo "$out" | grep -E "^(VIOLATION|HARNESS|$p tier)" 
  [ $r -ne 0 ] && rc=1 && echo "$p exit $r"
done
exit $rc
