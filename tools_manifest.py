#!/usr/bin/env python3
"""Regenerates MANIFEST.json from the table below (kept in one place so the manifest stays valid)."""
import json
import os

ROOT = os.path.dirname(os.path.abspath(__file__))
PY = "/venv/bin/python"

CHECKS = {
    # id: (technique, level text, level note, design ref)
    "C05": ("exhaustive grid enumeration + Hypothesis random doubles vs closed-form reference and algebraic laws",
            "Exhaustive over the k/4096 grid for all 6 registered hedges (formula, range, fixed points, monotonicity, "
            "scalar==array, ordering, inverse pairs, involution) plus Hypothesis-generated doubles around the branch "
            "point; hedges are pure functions of one number so a dense grid plus branch-point neighbours covers every "
            "branch of every formula.",
            "Trusts Python math.sqrt / IEEE arithmetic as reference; hedges taken from the HedgeFactory.", "§5 C05"),
}

CHECKS["C04"] = (
    "exhaustive dyadic-grid enumeration + Hypothesis random doubles vs exact rational reference and norm laws",
    "Exhaustive over all 16 registered norms on the k/64 pair grid and the k/16 (quick) / k/32 (thorough) triple grid "
    "with an exact Fraction reference (formula, range, bounds, commutativity, identity, annihilator, duality, "
    "associativity, monotonicity, scalar==array), plus Hypothesis doubles incl. neighbours of 0/1 and a+b next to 1.",
    "Trusts fractions.Fraction; Nilpotent*/Drastic* laws on inexact random doubles follow the fragile-case rule of "
    "DESIGN §4; one open known finding (HamacherSum cancellation near (1,1)).", "§5 C04")

CHECKS["C03"] = (
    "Hypothesis-generated term parameterisations and inputs vs closed-form reference (docs) + range/NaN/monotone/array laws",
    "Generated valid parameterisations of all 20 shape terms + Constant (3-decimal grid, dyadic grid, free doubles; both "
    "directions, vertical edges, infinite shoulders, heights) evaluated at interior points, every breakpoint and its two "
    "floating-point neighbours, +-inf and NaN, as scalar/0-D/1-D/2-D, against an independent closed-form reference.",
    "Reference written from the docstrings (vlib/refmath.py); conditioning-aware tolerance (DESIGN §4).", "§5 C03")
CHECKS["C11"] = (
    "Hypothesis-generated monotonic terms and degrees: round-trip membership(tsukamoto(y)) == y, monotone z(y), documented inverse, refusal",
    "Round trip, monotonicity of z(y), array==elementwise and agreement with the documented inverse for Arc, Concave, "
    "Ramp, Sigmoid (both directions), SShape, ZShape over three numeric regimes, heights in (0,1], y incl. h*2^-k, "
    "h*(1-2^-k), h/2 and neighbours; every other registered term class must refuse.",
    "y restricted to [h*2^-40, h*(1-2^-40)] (overflow of the exact inverse is a representation limit).", "§5 C11")

CHECKS["C06"] = (
    "Hypothesis-generated antecedent expression trees printed to rule text vs reference evaluation of the tree + structural postfix oracle",
    "Generated antecedent ASTs (depth<=4, 0-3 hedges, any, input and output variables, disabled variables, minimal or "
    "redundant parentheses, tight or spaced) are printed to text; the loaded rule's activation degree must equal the "
    "reference evaluation of the AST under the documented grammar for every (conjunction, disjunction) pair (all 63 "
    "visited), weights, scalar and batch inputs; Antecedent.postfix() must equal the AST's post-order print.",
    "Leaf memberships are taken from fresh term objects (C03 decides those); discontinuous-operator decisions within "
    "1e-9 of their branch point on computed operands are counted as fragile.", "§5 C06")
CHECKS["C07"] = (
    "Hypothesis-generated consequents/degrees vs a model of Rule.trigger + permutation metamorphic relation",
    "Generated rules with 1-3 conclusions over 1-3 output variables, 0-2 hedges each, enabled flags, all implication "
    "operators, degrees given directly (scalar/batch incl. 0,1,NaN,+-inf) or via a real antecedent: one Activated per "
    "conclusion on an enabled variable, concluded term object, block implication, own-hedges-only degree; every "
    "permutation of the conclusions yields the same multiset.",
    "Open known finding KF-C07-hedge-leak is matched by an exact cumulative-hedge model; anything else is reported.",
    "§5 C07")
CHECKS["C08"] = (
    "exhaustive enumeration of small degree vectors x all activation configurations + Hypothesis vectors vs reference selection",
    "Exhaustive over {0,1/4,1/2,3/4,1}^n (n<=4 quick, n<=5 thorough) x all 7 methods x all parameters (n_rules 0..n+1, "
    "5 thresholds, 6 comparators), plus Hypothesis-generated blocks of 1-8 rules with arbitrary doubles, ties, shared "
    "inputs, disabled/unloaded rules, weights; batches must be rejected by every method but General without any "
    "contribution. Degrees are realised exactly through Ramp(0,1) terms.",
    "Whether a disabled rule occupies a slot of First/Last/Highest/Lowest is not asserted (both readings accepted).",
    "§5 C08")

CHECKS["C01"] = (
    "Hypothesis-generated engines and input rows vs a reference interpreter of the documented pipeline working on the generated abstract syntax",
    "Generated engines of all profiles (Mamdani/Larsen, Takagi-Sugeno, Tsukamoto, inverse Tsukamoto, hybrid; every "
    "registered norm, hedge, defuzzifier; weights, disabled rules/blocks/variables, two chained rule blocks, output "
    "variables in antecedents, nested antecedents, a minority of non-General activation methods) processed row after row "
    "with floats (interior, bounds, breakpoints, out of range, +-inf, NaN); rule degrees, triggered flags, fuzzy outputs "
    "and output values must equal the reference interpreter's.",
    "Leaf memberships from fresh term objects (C03 decides those); fragile-case and tie-set rules of DESIGN §4; open "
    "known finding KF-C01-hedge-leak matched by the cumulative-hedge model.", "§5 C01")
CHECKS["C02"] = (
    "Hypothesis-generated engines and batches: differential test of array processing against row-by-row float processing",
    "The same generated spec is built twice; N rows (incl. NaN/inf rows, planted NaN rows after valid ones) are given "
    "as per-variable arrays or through engine.input_values (2-D, 1-D, 0-D) and processed once, versus row-by-row float "
    "processing from the same restarted state; outputs, fuzzy_value strings, activation degrees and exception "
    "behaviour must agree row for row, including lock-previous/default/lock-range carry-over.",
    "The scalar path is the reference (a defect common to both paths is C01's business).", "§5 C02")
CHECKS["C09"] = (
    "Hypothesis-generated aggregated fuzzy sets vs reference defuzzifiers computed on the pointwise-sampled set + laws",
    "Generated sets of 0-5 activated shape terms (any implication/aggregation, scalar or batch degrees, arbitrary finite "
    "ranges, resolutions 1..1000): the five integral defuzzifiers must return the statement's defined point of the "
    "sampled set; range, SOM<=MOM<=LOM, NaN iff empty, centroid translation, batch == per-set.",
    "The sampled membership vector is taken pointwise from the library (C03/C04 decide it).", "§5 C09")
CHECKS["C10"] = (
    "Hypothesis-generated fuzzy outputs vs reference grouping and weighted average/sum + zero-degree and convexity relations",
    "Generated activations (0-6, with repetitions) over Constant/Linear/Function, monotonic and non-monotonic terms, "
    "every aggregation operator or none, both defuzzifiers x {Automatic, TakagiSugeno, Tsukamoto}, scalar and batch: "
    "grouped_terms/activation_degree, the defuzzified value, rejection of mixed kinds, NaN iff empty/zero weights, "
    "zero-degree activations never change the result, weighted average of constants is convex.",
    "Tsukamoto z from the documented inverse; degrees outside (0,height) for Tsukamoto are undefined and skipped.",
    "§5 C10")

CHECKS["C12"] = (
    "Hypothesis-generated call histories (operation lists) interpreted against a per-row reference model of the lock-previous/default/lock-range cascade, compared after every step",
    "Histories of scalar/batch defuzzifications (values NaN, inside, outside the range, +-inf), failing defuzzifiers, "
    "clear, restart and enable toggles over one OutputVariable in each of the 12 settings (lock-previous x default in "
    "{NaN, inside, outside} x lock-range), driven through a scripted harness Defuzzifier (0-D, numpy.float64, 1-D "
    "results) and through a real one-input Takagi-Sugeno engine with float or array inputs: value (all rows) and "
    "previous_value must equal the model after every step; disabled variables and failing defuzzifiers change nothing; "
    "any split of a sequence into calls/batches yields the same values.",
    "The model is the statement's cascade row by row; comparisons are exact (NaN-equal).", "§5 C12")
CHECKS["C13"] = (
    "Hypothesis-generated operation histories on a generated engine vs a freshly built twin after every processing step + restart-state and copy-independence (identity walk) invariants",
    "Histories of set-inputs (floats/batches), process, process twice, restart, copy-and-switch, parameter/rule/operator "
    "edits, flag toggles and processing of the kept original over generated engines (incl. Linear/Function terms and "
    "output variables in antecedents): after every process the outputs and fuzzy outputs equal those of the same spec "
    "rebuilt from scratch and processed once; restart() leaves NaN inputs/outputs/previous values, empty fuzzy outputs, "
    "loaded rules and fresh-engine behaviour (also with lock-previous on); copy() shares no mutable object with the "
    "original, its Linear/Function/proposition references point into the copy, and neither engine's edits or "
    "processing change the other's outputs.",
    "Twin comparison exact; Function formulas reading output values are outside the history-free clause.", "§5 C13")
CHECKS["C14"] = (
    "Hypothesis-generated engines: FLL round-trip (text idempotence, independent structure walker, bit-identical outputs) + fixed point over rewritten accepted texts",
    "Generated engines over every registered term, norm, defuzzifier (resolution/type) and activation class (with "
    "parameters), descriptions with colons/quotes, disabled variables/blocks, non-unit heights and weights (incl. values "
    "next to 1), infinite ranges, NaN defaults, `none` operators, decimals 1..9, grid and free numeric regimes: "
    "export(import(export(e))) == export(e); an independent structure walker finds original and re-imported engine "
    "equal; in the grid regime outputs are bit-identical on generated rows; for semantics-preserving rewrites of "
    "exported texts and all shipped .fll files E1 = export(import(T)) is a fixed point.",
    "Format limits (Rule.enabled, Function.variables, int-typed counts) are generator preconditions listed in the "
    "evidence assumptions.", "§5 C14")

CHECKS["C20"] = (
    "Hypothesis-generated programs of nested settings contexts, direct assignments and exceptions interpreted against a model of the settings stack + exhaustive depth-2 enumeration",
    "Recursively generated programs (with{subset->values} body | assign | raise | try | observe, depth <= 4) over the 7 "
    "settings with float types, decimals, tolerances, aliases, fresh loggers and factory managers: vars(fl.settings) "
    "equals the model at every observation, after every context exit (normal or by exception) and at the end; helper "
    "outputs (Op.str, Op.is_close, scalar dtype, import statement) reflect the model's current values. All depth-2 "
    "single-setting programs (7x7 pairs x {normal, exception inside, exception between exits}) are enumerated.",
    "Settings values are never None (not expressible through a context).", "§5 C20")

CHECKS["C19"] = (
    "Hypothesis-generated base engines x exhaustive enumeration of all subsets of removable operators: is_ready vs process() and vs a structural definition of 'needed'",
    "For every generated valid base engine (rules with and/or/both/neither, integral and weighted defuzzifiers, one or "
    "two blocks and outputs, disabled components, all activation methods) every subset of {conjunction, disjunction, "
    "implication per block; aggregation, defuzzifier per output} is removed: if is_ready reports no errors, processing "
    "finite rows must not raise; every removed component that the loaded rules / output variables need must be named "
    "in the errors.",
    "All subsets are enumerated for bases with <= 8 removable components; two-block bases use all subsets of size <= 2, "
    "their complements and 64 generated subsets.", "§5 C19")

CHECKS["C18"] = (
    "Hypothesis-generated engines, sizes, switches and reader contents vs an independent tabulation (integer root, Fraction grid, lexicographic order, scalar reference engine)",
    "Generated General-activation engines with 1-4 inputs (already used or fresh), both scopes, v in 1..2000 with all "
    "perfect powers and neighbours planted, header/inputs/outputs switches, 4 separators, decimals 0..9: header, row "
    "count k^n with k from integer arithmetic, every input cell within half a unit of the exact grid value with "
    "exactly d decimals, rows in lexicographic order (last input fastest), every output cell equal to what an "
    "independently built engine produces for that row processed with Python floats after restart(); reader contents "
    "with blank/comment/skipped lines and extra columns tabulate exactly the given rows.",
    "EachVariable sizes bounded by a row cap (cost); outputs of tables > 300 rows verified on 122 rows unless "
    "lock-previous is on.", "§5 C18")

CHECKS["C17"] = (
    "Hypothesis-generated typed expression trees printed to formula text vs an independent evaluator of the tree + structural postfix oracle + RPN evaluation + generated ill-formed variants",
    "Typed trees (depth <= 5) over all 13 operators and 34 functions/constants, <= 3-decimal literals, variables x / "
    "engine inputs / engine output / the term's own map, printed with minimal or redundant parentheses, tight or "
    "spaced: the loaded formula's postfix must equal the tree's post-order print; membership(x) and evaluate(map) must "
    "equal the reference value of the tree for scalar, array and mixed valuations (incl. 0, negatives, +-inf, NaN); an "
    "RPN machine on the postfix gives the same values; variants with an operand deleted, an argument added/removed or "
    "one parenthesis added/removed must be rejected with SyntaxError/ValueError.",
    "Reference: IEEE double semantics of the named function from this harness' own table, cross-checked with Python's "
    "math; min/max with NaN and remainders of non-finite operands are left undefined.", "§5 C17")

CHECKS["C16"] = (
    "Hypothesis-generated token/line mutations of valid rule and FLL texts + grammar-generated rules with exactly one injected error, outcome-classification oracle; atheris coverage-guided campaigns with the same oracle in the thorough tier",
    "Valid rules printed from generated ASTs (hedges, any, nested parentheses, output variables in antecedents, weights) "
    "over an engine with disjoint name pools are mutated at token level (delete, duplicate, substitute, insert, "
    "truncate, swap, glue); valid FLL documents (generated and shipped) at line/key/value/token level: every text is "
    "either accepted (then exports, evaluates and re-imports to a fixed point, and is reported loaded) or rejected with "
    "SyntaxError/ValueError/KeyError - never TypeError/AttributeError/IndexError/RecursionError/NameError/"
    "AssertionError; a failed load leaves the rule not loaded; rules with exactly one injected error of the 13 listed "
    "classes are never accepted.",
    "Other exception types (RuntimeError ...) are counted as unclassified and listed, not judged. Thorough tier: atheris "
    "targets fuzz/fuzz_rule.py and fuzz/fuzz_fll.py, seeded and empty corpus, -seed=VERIF_SEED.", "§5 C16")

CHECKS["C15"] = (
    "Hypothesis-generated engines and components: execute the import statement and the exported Python code in a fresh namespace, compare repr, FLL export and outputs of the rebuilt object with the original (round-trip + differential)",
    "Generated engines (as in C14, with arbitrary finite doubles, +-inf, NaN defaults, quotes/backslashes in descriptions, "
    "Function terms with their own variables map, disabled components, non-default resolutions/types/activation "
    "parameters) x aliases {fl, '', *, custom} x {repr, PythonExporter plain, encapsulated} x {formatted, unformatted}: "
    "the code must execute, the rebuilt engine's repr and FLL export must equal the original's and, under the "
    "statement's precondition on heights/weights, its outputs must be bit-identical on generated rows; every component "
    "(variables, terms, norms, defuzzifiers, activation methods, rule blocks, rules) is also exported and rebuilt on its "
    "own.",
    "Rules are generated enabled (Rule.__repr__ cannot carry the flag); formatted variants (black) are a minority.",
    "§5 C15")

EXTRA = {
    "C01": " Engines are also configured through Engine.configure on an engine built without operators, rules re-texted on the same objects and reloaded by restart(), non-General activation methods drawn in a quarter of the engines, rows with a single missing (NaN) input planted.",
    "C02": " The same engine may first process an earlier batch (another size, or the same size with the new batch written into the arrays the variables already hold); NaN rows are planted after valid and after infinite-output rows. Long batches (up to 131 073 rows tiled from 2-7 distinct rows, lock-previous off) must give every row the degrees and values of the short batch.",
    "C03": " Includes Discrete terms with a vertical edge and the public sort(), rectangles unbounded on one side, degenerate vertical edges, overlapping PiShape halves, negative Spike widths, in-place re-parameterisation of a used term object, float32 / integer / column-major presentations and the invariant that array arguments are never mutated. Single arrays of up to 262 147 points (lengths at and next to powers of two, above and below 65 536, optionally 2-D) are evaluated for every term class and compared element by element with the scalar membership.",
    "C04": " A deterministic boundary grid (0, 1, 1/2, float neighbours, 1-2^-k, 2^-k, values within the library tolerance of 0 and 1, magnitudes whose products underflow) runs for all 16 norms in every tier; crisp degrees are also given as bool / int scalars and arrays; arguments must not be mutated. Operands of different shapes as the library passes them (column (rows,1) x row (m,), swapped, scalar x array both ways) must give the (rows, m) table of the formula, on boundary, k/16 and generated lists in different orders. Operand arrays of up to 1 048 579 elements are compared element by element with the Fraction-checked 65 x 65 table.",
    "C05": " Arrays are also presented column-major and as float32; arguments must not be mutated and results must be fresh values (editing a returned array must not change the next call). Single arrays of up to 1 048 579 degrees (lengths at and next to powers of two, above and below 65 536, optionally 2-D) are compared element by element with the vectorised reference formulas.",
    "C06": " One Term object may be registered in two input variables. The rule is also evaluated through the rule block's activation method (General, First, Last, Highest, Lowest, Threshold) and after the same Rule object carried another weighted text.",
    "C07": " Rules are also loaded repeatedly, re-texted and loaded back, or assembled through the Proposition constructor with one re-used hedge list, before being triggered.",
    "C08": " Generated vectors include NaN degrees and multi-digit rule counts; every configuration is also reached through configure() and attribute assignment; a second activation runs on the same method and rule objects after public edits (parameters assigned, rules unloaded through antecedent / consequent).",
    "C09": " A fixed corpus of integer-bound ranges runs in one process; activations of an identical term share one Term object (also with different implications), near-identical same-named terms and a full-range first activation are planted. Every sampled value of the aggregated set is verified against an independent S-norm / implication fold; defuzzifier objects are re-used after a resolution change; the Aggregated object's own bounds may differ from the integration range.",
    "C10": " Constants may be infinite or NaN. Defuzzifier objects and fuzzy-output objects are re-used across outputs of different kinds (the configured type must not change by use); activation_degree is also queried with fresh term objects of the same name.",
    "C11": " Includes in-place re-parameterisation of a used term object, planted heights within the library tolerance of 1 and tiny heights, monotone Discrete terms in the refusal clause, and the invariant that array arguments are never mutated.",
    "C12": " Ranges with exactly one infinite bound and default values of +-inf are included.",
    "C13": " process() must leave the input values unchanged (rows also given as 0-d arrays; an identity Function input term under Proportional activation is planted). Histories include persistent flag flips, in-place term shifts, weights that do not survive printing, planted edit-restart-process and disable-restart-enable patterns, non-General activation methods; every restart is followed at once by a processed probe row compared with a fresh twin.",
    "C14": " Originals are built with programmatic rule weights; specs include engine-dependent Function terms in input variables and names with non-ASCII letters; the file entry points to_file / from_file are exercised.",
    "C15": " Originals are built by the one-shot constructor or incrementally, with programmatic weights, up to 8 Function substitution variables, non-ASCII names, low-decimals regimes; components are exported through to_string and through the exporter's dedicated methods, including components without terms or rules.",
    "C16": " The rule engine holds a variable without terms; stray_comma is a further injected class. A fixed corpus of degenerate rule texts (empty parts, bare parentheses, a variable without terms) and the injected-error classes foreign_term / foreign_variable / missing_connective complement the mutations.",
    "C17": " Literals have up to 5 decimals, near-identical twin sub-expressions are planted, one own variable is called `rate`, a scalar x may meet one-element arrays (result shape asserted), empty formulas must be rejected by every route. Formulas are loaded by Function.create, by configure() on a term that already holds another formula, and by the constructor; a share is evaluated under non-default atol / rtol; each is re-evaluated after the engine variable object behind a name is replaced.",
    "C18": " Tables of just over 4096 rows and input variables on a descending scale are included. The exporter object may be created before the decimals context, datasets also go through the file entry point, a rule text may be edited before exporting without reloading, and tables of more than 1024 rows over a lock-previous output with non-firing regions are planted.",
    "C19": " A term-less input variable referenced through `any` may be wired in. Rule blocks may share a name or be unnamed (one error message per needy block is required); a ready base engine that fails to process is a violation (no masking precondition).",
    "C20": " Context objects may be created before they are entered (with assignments in between), and programs also run on a second fl.Settings instance while the library-wide object must stay untouched. Contexts are left normally, by an Exception, by a BaseException that is not an Exception, or by GeneratorExit, and context objects are also used as function decorators whose calls nest (the same object entered while entered).",
}
for _k, _v in EXTRA.items():
    if _k in CHECKS:
        _t = CHECKS[_k]
        CHECKS[_k] = (_t[0], _t[1] + _v, _t[2], _t[3])

NOT_APPLICABLE = {}


def main():
    props = [json.loads(l)["id"] for l in open(os.path.join(ROOT, "properties.jsonl"))]
    checks = []
    for pid in props:
        if pid not in CHECKS:
            continue
        tech, text, note, ref = CHECKS[pid]
        checks.append({
            "property_id": pid,
            "quick_cmd": f"{PY} run.py {pid} --tier quick",
            "thorough_cmd": f"{PY} run.py {pid} --tier thorough",
            "evidence_file": f"evidence/{pid}.json",
            "replay_cmd_template": f"{PY} run.py {pid} --replay {{path}}",
            "engine": "pbt",
            "level_claimed": {"category": "exploration", "text": text, "design_ref": ref},
            "level_note": note,
            "technique": tech,
        })
    na = [{"property_id": p, "reason": NOT_APPLICABLE.get(p, "check not built yet (work in progress); see DESIGN.md §5 for the planned generator and oracle")}
          for p in props if p not in CHECKS]
    manifest = {
        "version": 1,
        "setup_cmd": f"{PY} setup_check.py",
        "hooks": {
            "guard": "PYFUZZYLITE_VERIF",
            "enable": "no source hooks are needed: every observable the checks use is public API; checks import fuzzylite from /repo's working tree (VERIF_REPO overrides)",
            "baseline_off_cmd": "cd /repo && /venv/bin/python -m pytest -ra -q -p no:cacheprovider --timeout=900 --continue-on-collection-errors",
            "source_commits": [],
            "add_only": True,
        },
        "engines": [{"name": "pbt", "path": "run.py", "serves_properties": [c["property_id"] for c in checks],
                     "kind_free_text": "Hypothesis property-based testing (stateful where histories matter), exhaustive enumeration of small finite sub-domains, atheris coverage-guided fuzzing for the parsers; reference oracles in vlib/"}],
        "checks": checks,
        "not_applicable": na,
        "notes": "All checks: `run.py <id> --tier quick|thorough`; exit 0 held / 1 VIOLATION / 2 harness error. known_findings.json lists open and fixed findings.",
    }
    with open(os.path.join(ROOT, "MANIFEST.json"), "w") as f:
        json.dump(manifest, f, indent=1)
        f.write("\n")


if __name__ == "__main__":
    main()
