"""C01 — Engine output equals the documented inference pipeline.

Oracle: vlib.refengine — a reference interpreter of the documented pipeline working on the abstract syntax the
generator produced (the implementation only sees the printed rule text).
"""

from __future__ import annotations

import math

import numpy as np
from hypothesis import strategies as st

import fuzzylite as fl  # noqa: F401
from vlib import build, gen, implmu, refengine

RULE = ("cases are (engine spec, list of input rows processed one after another with Python floats); non-trivial when "
        "some rule fired with a degree strictly inside (0,1), some enabled output is finite, and the case has a feature "
        "the shipped examples lack (weight != 1, hedge, nested antecedent, non-Min/Max operator, disabled component, "
        "second rule block, output variable in an antecedent, non-General activation); distinct by (spec, rows)")
ASSUMPTIONS = [
    "leaf memberships (input terms at the input value, output terms at the defuzzifier's sample points) are taken from "
    "fresh term objects evaluated pointwise: the membership functions themselves are decided by C03",
    "smooth results (Centroid, weighted) compared within 1e-9 relative to the range / operand magnitude; rule degrees "
    "and contribution degrees within 1e-12 + 4 ulp; Bisector/SOM/MOM/LOM exactly (1e-12) unless the reference's tie "
    "set has a near-tie within 1e-9 (then the loose tie-set bound applies, counted as tie_fallback)",
    "fragile rule: a mismatch is not reported when the reference took a discontinuous decision (Drastic*/Nilpotent* "
    "branch, activation-method threshold/tie) on a computed value within 1e-9 of the branch point (counted)",
    "Tsukamoto values for aggregated degrees outside (0,height) are undefined by the documentation: not compared",
    "the hedge leak of Consequent.modify (open known finding, see C07) is recognised by re-running the reference in "
    "the cumulative-hedge model; agreement with that model only is counted under KF-C01-hedge-leak",
]


def known_leak(label, case, detail):
    if isinstance(detail, dict) and detail.get("matches_leaky_model"):
        return "KF-C01-hedge-leak"
    return None


def setup_ctx(ctx):
    if any(k["id"] == "KF-C01-hedge-leak" for k in ctx.known):
        ctx.matchers.append(known_leak)


def close(a, b, rel=0.0):
    if a is None or b is None:
        return a is b
    if math.isnan(a) or math.isnan(b):
        return math.isnan(a) and math.isnan(b)
    return a == b or abs(a - b) <= 1e-12 + 4 * math.ulp(max(abs(a), abs(b))) + rel


def f0(x):
    return float(np.asarray(x, dtype=float).reshape(-1)[0])


def observe(eng):
    outs = {v.name: f0(v.value) for v in eng.output_variables}
    fuzzy = {v.name: [(a.term.name, f0(a.degree)) for a in v.fuzzy.terms] for v in eng.output_variables}
    degs = [[f0(r.activation_degree) for r in rb.rules] for rb in eng.rule_blocks]
    trig = [[bool(np.asarray(r.triggered).reshape(-1)[0]) for r in rb.rules] for rb in eng.rule_blocks]
    return outs, fuzzy, degs, trig


def diff(spec, res, obs, tiefb):
    """Return None if the observation agrees with the reference result, else (label, detail)."""
    outs, fuzzy, degs, trig = obs
    for bi, b in enumerate(spec["blocks"]):
        if res["degrees"][bi] is None:
            continue
        for ri, d in enumerate(res["degrees"][bi]):
            rel = 4e-16 if b["activation"]["cls"] == "Proportional" else 0.0
            if not close(degs[bi][ri], d, rel):
                return "rule-degree", {"block": bi, "rule": ri, "got": degs[bi][ri], "want": d}
            if trig[bi][ri] != res["triggered"][bi][ri]:
                return "triggered", {"block": bi, "rule": ri, "got": trig[bi][ri], "want": res["triggered"][bi][ri]}
    general = all(b["activation"]["cls"] in ("General", "First", "Threshold", "Proportional") for b in spec["blocks"])
    for v in spec["outputs"]:
        n = v["name"]
        want = [(t, d) for (t, d, _i) in res["fuzzy"][n]]
        got = fuzzy[n]
        if not general:
            want, got = sorted(want, key=str), sorted(got, key=str)
        if len(want) != len(got) or any(a[0] != b_[0] or not close(a[1], b_[1], 4e-16) for a, b_ in zip(got, want)):
            return "fuzzy-output", {"variable": n, "got": got, "want": want}
    for v in spec["outputs"]:
        n = v["name"]
        want = res["outputs"][n]
        got = outs[n]
        if want is None:
            if not math.isnan(got):
                return "disabled-output-touched", {"variable": n, "got": got}
            continue
        if isinstance(want, tuple):
            tiefb.append("undefined")
            continue
        dz = v["defuzzifier"]
        if "resolution" in dz:
            info = res["info"].get(n, {})
            lo, hi = float(v["min"]), float(v["max"])
            unclipped_ok = refengine.integral_agree(dz["cls"], got, want, info, lo, hi)
            if unclipped_ok == "bad" and v.get("lock_range") and info.get("loose") and info.get("tie"):
                unclipped_ok = "tie"
            if unclipped_ok == "tie":
                tiefb.append("tie_fallback")
            elif unclipped_ok == "bad":
                return "output-value", {"variable": n, "got": got, "want": want, "defuzzifier": dz, "info": info}
        else:
            zmax = res["info"].get(n, {}).get("zmax", 0.0)
            tol = 1e-9 * max(1.0, zmax, abs(want) if math.isfinite(want) else 0.0)
            if res["info"].get(n, {}).get("kind") == "Tsukamoto":
                tol *= 1000.0
            if not (close(got, want) or (math.isfinite(got) and math.isfinite(want) and abs(got - want) <= tol)):
                return "output-value", {"variable": n, "got": got, "want": want, "defuzzifier": dz,
                                        "info": res["info"].get(n)}
    return None


def features(spec):
    f = set()
    for bi, b in enumerate(spec["blocks"]):
        if bi > 0:
            f.add("second_block")
        if not b.get("enabled", True):
            f.add("disabled_block")
        if b["conjunction"] != "Minimum" or b["disjunction"] != "Maximum":
            f.add("non_minmax_operator")
        if b["activation"]["cls"] != "General":
            f.add("non_general_activation")
        for r in b["rules"]:
            if r.get("weight") not in (None, 1.0):
                f.add("weight")
            if not r.get("enabled", True):
                f.add("disabled_rule")
            props = gen.ante_props(r["ante"])
            if any(p["hedges"] for p in props) or any(c["hedges"] for c in r["cons"]):
                f.add("hedge")
            if len(props) > 2:
                f.add("nested_antecedent")
            outs = {v["name"] for v in spec["outputs"]}
            if any(p["var"] in outs for p in props):
                f.add("output_in_antecedent")
    if any(not v.get("enabled", True) for v in spec["inputs"] + spec["outputs"]):
        f.add("disabled_variable")
    return f


def homogenise(spec):
    """Every block takes the first block's operators, every output the first output's aggregation / defuzzifier."""
    import copy

    spec = copy.deepcopy(spec)
    b0, o0 = spec["blocks"][0], spec["outputs"][0]
    for b in spec["blocks"]:
        for k in ("conjunction", "disjunction", "implication", "activation"):
            b[k] = copy.deepcopy(b0[k])
    for o in spec["outputs"]:
        o["aggregation"], o["defuzzifier"] = o0["aggregation"], copy.deepcopy(o0["defuzzifier"])
    return spec


def check_pipeline(ctx, case) -> None:
    spec, rows = case["spec"], case["rows"]
    if case.get("route") == "configure" and len({("resolution" in (o["defuzzifier"] or {})) for o in spec["outputs"]}) == 1 \
            and len({o.get("profile_kind", spec.get("profile")) for o in spec["outputs"]}) == 1 and spec.get("profile") != "hybrid":
        # the operators are set through Engine.configure (names for the norms, objects for defuzzifier and activation)
        # on an engine built without any
        import copy

        spec = homogenise(spec)
        bare = copy.deepcopy(spec)
        for b in bare["blocks"]:
            b["conjunction"] = b["disjunction"] = b["implication"] = None
            b["activation"] = {"cls": "General"}
        for o in bare["outputs"]:
            o["aggregation"] = o["defuzzifier"] = None
        eng = build.mk_engine(bare)
        b0, o0 = spec["blocks"][0], spec["outputs"][0]
        eng.configure(conjunction=b0["conjunction"], disjunction=b0["disjunction"], implication=b0["implication"],
                      aggregation=o0["aggregation"], defuzzifier=build.mk_defuzzifier(o0["defuzzifier"]),
                      activation=build.mk_activation(b0["activation"]))
        ctx.cls("route:Engine.configure")
    else:
        eng = build.mk_engine(spec)
    if case.get("retext"):
        # every Rule object first carries a differently weighted text, then its own text again, and the engine is
        # restarted: the pipeline follows the current text (a missing `with` means weight 1)
        for b, bo in zip(spec["blocks"], eng.rule_blocks):
            for r, ro in zip(b["rules"], bo.rules):
                ro.text = gen.rule_text(dict(r, weight=0.5))
                ro.text = gen.rule_text(r)
        eng.restart()
        ctx.cls("route:retext+restart")
    ref = refengine.Ref(spec, mu=implmu.impl_mu)
    leaky = refengine.Ref(spec, leaky_consequent=True, mu=implmu.impl_mu)
    prev = {}
    fired = finite = False
    ctx.cls("profile:" + spec.get("profile", "?"))
    for k, row in enumerate(rows):
        for v, x in zip(eng.input_variables, row):
            v.value = float(x)
        sub = {"spec": case["spec"], "rows": rows[: k + 1], "route": case.get("route"), "retext": case.get("retext")}
        try:
            res = ref.process(row, prev)
        except refengine.RefError as e:
            try:
                eng.process()
            except Exception as ex:  # noqa: BLE001
                ctx.check(type(ex).__name__ == e.kind, "rejection-kind", sub, {"want": e.kind, "got": type(ex).__name__})
                ctx.cls("rejected:" + e.kind)
                return
            ctx.fail("not-rejected", sub, {"want": e.kind, "reason": str(e)})
        eng.process()
        ctx.ev()
        obs = observe(eng)
        tiefb = []
        d = diff(spec, res, obs, tiefb)
        if d is not None:
            label, detail = d
            lres = leaky.process(row, prev)
            if diff(spec, lres, obs, []) is None:
                detail["matches_leaky_model"] = True
            elif res["margin"] < 1e-9:
                ctx.cls("fragile")
                return
            detail["row"] = row
            detail["rules"] = [[gen.rule_text(r) for r in b["rules"]] for b in spec["blocks"]]
            ctx.fail(label, sub, detail)
        for t in tiefb:
            ctx.cls(t)
        for n, val in res["outputs"].items():
            if val is None:
                continue
            if isinstance(val, tuple):
                prev[n] = obs[0][n]
            else:
                # the row was accepted (possibly through the tie-set rule, where the implementation's value is another
                # member of the tie set): the state carried to the next row is the implementation's accepted value
                prev[n] = obs[0][n]
                if math.isfinite(val):
                    finite = True
        for bd in res["degrees"]:
            if bd and any(dd is not None and 0.0 < dd < 1.0 for dd in bd):
                fired = True
    fs = features(spec)
    for f in fs:
        ctx.cls("feature:" + f)
    if fired and finite and fs:
        ctx.nt(case, {"rules": [[gen.rule_text(r) for r in b["rules"]] for b in spec["blocks"]], "rows": rows,
                      "outputs": {n: v for n, v in prev.items()}, "features": sorted(fs),
                      "operators": [[b["conjunction"], b["disjunction"], b["implication"]] for b in spec["blocks"]],
                      "defuzzifiers": [v["defuzzifier"] for v in spec["outputs"]]})


@st.composite
def other_activation(draw):
    cls = draw(st.sampled_from(["First", "Last", "Highest", "Lowest", "Threshold", "Proportional"]))
    if cls in ("First", "Last"):
        return {"cls": cls, "rules": draw(st.integers(0, 4)), "threshold": draw(st.sampled_from([0.0, 0.25, 0.5]))}
    if cls in ("Highest", "Lowest"):
        return {"cls": cls, "rules": draw(st.integers(0, 4))}
    if cls == "Threshold":
        return {"cls": cls, "comparator": draw(st.sampled_from(["<", "<=", "==", "!=", ">=", ">"])),
                "threshold": draw(st.sampled_from([0.0, 0.25, 0.5]))}
    return {"cls": cls}


@st.composite
def cases(draw):
    act = st.one_of(*([gen.activation_general()] * 3 + [other_activation()]))
    spec = draw(gen.engine(activation=act, functions=True))
    n = draw(st.sampled_from([1, 2, 3, 4, 6]))
    rows = [draw(gen.input_row(spec)) for _ in range(n)]
    if len(spec["inputs"]) >= 2 and draw(st.integers(0, 3)) == 0:
        # one input missing (NaN, as after restart()) while the others are given
        k = draw(st.integers(0, n - 1))
        rows[k] = list(rows[k])
        rows[k][draw(st.integers(0, len(spec["inputs"]) - 1))] = math.nan
    return {"spec": spec, "rows": rows, "route": draw(st.sampled_from([None, None, None, None, "configure"])),
            "retext": draw(st.integers(0, 5)) == 0}


def shard(ctx, shard, nshards, ex):
    ctx.hyp("pipeline", cases(), check_pipeline, ex)


def run(ctx) -> None:
    import sys

    from vlib import runner

    mod = sys.modules[__name__]
    if ctx.tier == "quick":
        runner.run_sharded(ctx, mod, "shard", 8, ex=500)
    else:
        runner.run_sharded(ctx, mod, "shard", 16, ex=3000)


def replay(ctx, prop, case) -> None:
    if prop == "pipeline":
        ctx.direct(prop, check_pipeline, [case])
