"""C19 — An engine reported ready can be processed; every needed missing operator is reported.

Oracle: (->) is_ready() True implies process() does not raise on finite rows; (<-) a structural definition of
"needed" written from the statement: every removed component that is needed must be named in `errors`.
All subsets of removable components of each generated base engine are enumerated.
"""

from __future__ import annotations

import itertools
import math

from hypothesis import strategies as st

import fuzzylite as fl
from vlib import build, gen

RULE = ("cases are (valid base engine spec with whitespace-separated rule tokens and an activation method on every "
        "block, 1-3 finite input rows); for each base every subset of the removable components {conjunction, "
        "disjunction, implication per block; aggregation, defuzzifier per output variable} is removed in turn (all 2^k "
        "subsets for k <= 8, otherwise all subsets of size <= 2, their complements and 64 generated ones); a (base, "
        "subset) pair is non-trivial when the subset is non-empty; distinct by (spec, subset)")
ASSUMPTIONS = [
    "base engines are valid by construction (coherent Mamdani / Takagi-Sugeno / Tsukamoto profiles with every operator "
    "present); a base that is not reported ready is discarded and counted (`base_discarded_not_ready`, 0 in practice); a "
    "ready base that fails to process is a violation like any other subset (no masking precondition)",
    "needed (<- clause): conjunction/disjunction - an enabled block has a loaded rule whose antecedent contains the "
    "keyword; implication - an enabled block has an enabled loaded rule concluding on an enabled output variable with "
    "an integral defuzzifier; aggregation - output variable with an integral defuzzifier; defuzzifier - every output "
    "variable. Nothing is asserted about errors for components that are not needed",
    "an error 'names' a component when it contains the component word and the quoted block / variable name",
    "rows are finite floats (the statement's domain); activation methods other than General are included because the "
    "rows are scalar",
]

BLOCK_KEYS = ("conjunction", "disjunction", "implication")
OUT_KEYS = ("aggregation", "defuzzifier")


def components(spec):
    comps = []
    for bi, b in enumerate(spec["blocks"]):
        for k in BLOCK_KEYS:
            comps.append(("block", bi, k))
    for oi, _ in enumerate(spec["outputs"]):
        for k in OUT_KEYS:
            comps.append(("out", oi, k))
    return comps


def apply_subset(e, base_ops, subset):
    """Set the engine's operators to the base configuration minus `subset` (in place)."""
    for (kind, i, k), obj in base_ops.items():
        target = e.rule_blocks[i] if kind == "block" else e.output_variables[i]
        setattr(target, k, None if (kind, i, k) in subset else obj)


def needed(spec, removed_defuzz):
    """Which components are needed, structurally (see ASSUMPTIONS). `removed_defuzz`: indices of outputs whose
    defuzzifier is removed in this configuration (an output without defuzzifier has no *integral* defuzzifier)."""
    need = set()
    integral = {}
    out_enabled = {}
    for oi, v in enumerate(spec["outputs"]):
        integral[v["name"]] = (v["defuzzifier"] is not None and "resolution" in v["defuzzifier"]
                               and oi not in removed_defuzz)
        out_enabled[v["name"]] = v.get("enabled", True)
        need.add(("out", oi, "defuzzifier"))
        if integral[v["name"]]:
            need.add(("out", oi, "aggregation"))
    for bi, b in enumerate(spec["blocks"]):
        if not b.get("enabled", True):
            continue
        for r in b["rules"]:
            if r.get("loadable") is False:
                continue  # "needed by the *loaded* rules": a rule that cannot load never fires
            ops = gen.ante_ops(r["ante"])
            if "and" in ops:
                need.add(("block", bi, "conjunction"))
            if "or" in ops:
                need.add(("block", bi, "disjunction"))
            if r.get("enabled", True) and any(integral[c["var"]] and out_enabled[c["var"]] for c in r["cons"]):
                need.add(("block", bi, "implication"))
    return need


def subsets_for(comps, extra):
    k = len(comps)
    if k <= 8:
        for n in range(k + 1):
            yield from (frozenset(c) for c in itertools.combinations(comps, n))
        return
    seen = set()
    allc = frozenset(comps)
    for n in range(3):
        for c in itertools.combinations(comps, n):
            for s in (frozenset(c), allc - frozenset(c)):
                if s not in seen:
                    seen.add(s)
                    yield s
    for mask in extra:
        s = frozenset(c for i, c in enumerate(comps) if (mask >> i) & 1)
        if s not in seen:
            seen.add(s)
            yield s


def process_rows(e, rows, restart=True):
    for row in rows:
        if restart:  # (not for engines holding a rule that cannot load: restart() reloads the rules and reports it)
            e.restart()
        for v, x in zip(e.input_variables, row):
            v.value = float(x)
        e.process()


def connective_kind(spec):
    ops = [o for b in spec["blocks"] for r in b["rules"] for o in gen.ante_ops(r["ante"])]
    return ("both" if "and" in ops and "or" in ops else "and" if "and" in ops else "or" if "or" in ops else "neither")


def check_base(ctx, case) -> None:
    spec, rows = case["spec"], case["rows"]
    only = case.get("subset")  # replay of one subset
    if case.get("bare"):
        # a wired-in input variable without terms, referenced through `any` (the only proposition that needs no term):
        # such a rule does not load; the engine is assembled with load=False and the load error is the caller's
        e = fl.Engine(name="E", input_variables=[build.mk_input(v) for v in spec["inputs"]],
                      output_variables=[build.mk_output(v) for v in spec["outputs"]],
                      rule_blocks=[build.mk_block(b) for b in spec["blocks"]], load=False)
        for v in e.variables:
            for t in v.terms:
                t.update_reference(e)
        for rb in e.rule_blocks:
            try:
                rb.load_rules(e)
            except RuntimeError:
                ctx.cls("rule_on_termless_variable_did_not_load")
        ctx.cls("bases_with_termless_variable")
    else:
        e = build.mk_engine(spec)
    base_ops = {}
    for (kind, i, k) in components(spec):
        target = e.rule_blocks[i] if kind == "block" else e.output_variables[i]
        if getattr(target, k) is not None:  # only components the base has are removable
            base_ops[(kind, i, k)] = getattr(target, k)
    comps = sorted(base_ops)
    # the fully configured base engine is valid by construction (coherent profile, every operator present): it must be
    # reported ready; if it is, the empty subset below already asserts that it processes (no masking precondition)
    errs: list[str] = []
    if not e.is_ready(errs):
        ctx.cls("base_discarded_not_ready")
        return
    ctx.cls("bases")
    kind = connective_kind(spec)
    ctx.cls("connectives:" + kind)
    for v in spec["outputs"]:
        ctx.cls("defuzzifier_family:" + ("integral" if "resolution" in v["defuzzifier"] else "weighted"))
    todo = [frozenset(tuple(c) for c in only)] if only is not None else subsets_for(comps, case.get("masks", []))
    for subset in todo:
        sub = sorted(subset)
        sc = {"spec": spec, "rows": rows, "subset": [list(c) for c in sub], "bare": case.get("bare")}
        apply_subset(e, base_ops, subset)
        ctx.ev()
        errors: list[str] = []
        ready = e.is_ready(errors)
        ctx.cls(f"removed:{len(subset)}")
        ctx.cls("ready" if ready else "not_ready")
        if subset:
            ctx.nt([spec, sub], {"removed": [list(c) for c in sub], "ready": ready, "errors": errors[:4],
                                 "rules": [gen.rule_text(r) for b in spec["blocks"] for r in b["rules"]][:4]})
        # (<-) every needed removed component is reported
        nd = needed(spec, {i for (k, i, key) in subset if k == "out" and key == "defuzzifier"})
        def label(c):
            if c[0] == "out":
                return f"'{spec['outputs'][c[1]]['name']}'"
            nm = spec["blocks"][c[1]]["name"]
            return f"'{nm}'" if nm else f"[{c[1]}]"  # an unnamed block is referred to by its index

        for c in sub:
            if c in nd:
                # one error per needy component: blocks that share a name each need their own message
                same = [x for x in sub if x in nd and x[0] == c[0] and x[2] == c[2] and label(x) == label(c)]
                named = sum(1 for er in errors if c[2] in er and label(c) in er)
                if named < len(same):
                    ctx.fail(f"needed-{c[2]}-not-reported", sc, {"missing": list(c), "errors": errors, "ready": ready,
                                                                 "label": label(c), "needed_by_blocks": len(same)})
                ctx.cls("needed_and_reported:" + c[2])
        # (->) ready implies processable
        if ready:
            try:
                process_rows(e, rows, restart=not case.get("bare"))
            except Exception as ex:  # noqa: BLE001
                ctx.fail("ready-but-process-raises", sc, {"exception": f"{type(ex).__name__}: {ex}"[:300],
                                                          "removed": [list(c) for c in sub]})
            ctx.cls("ready_and_processed")
    apply_subset(e, base_ops, frozenset())


@st.composite
def cases(draw):
    two = draw(st.integers(0, 3)) == 0
    act = st.sampled_from([{"cls": "General"}] * 6 + [{"cls": "First", "rules": 2, "threshold": 0.0},
                                                      {"cls": "Highest", "rules": 1}, {"cls": "Proportional"},
                                                      {"cls": "Threshold", "comparator": ">", "threshold": 0.25},
                                                      {"cls": "Lowest", "rules": 2}, {"cls": "Last", "rules": 1,
                                                                                      "threshold": 0.5}])
    spec = draw(gen.engine(n_blocks=(2, 2) if two else (1, 1), n_out=(1, 2), n_rules=(1, 4), activation=act,
                           rg=draw(st.sampled_from(["dec", "dy"])), depth=2))
    names = draw(st.sampled_from([None, None, ("rules", "rules"), ("", ""), ("a", ""), ("", "b")]))
    if names:
        for b, nm in zip(spec["blocks"], names):
            b["name"] = nm
    for b in spec["blocks"]:
        for r in b["rules"]:
            r["tight"] = False
            if not r["enabled"] and draw(st.booleans()):
                r["enabled"] = True
    bare = draw(st.integers(0, 5)) == 0
    rows = []
    for _ in range(draw(st.integers(1, 3))):
        row = draw(gen.input_row(spec))
        rows.append([x if math.isfinite(x) else (v["min"] + v["max"]) / 2 if math.isfinite(v["min"] + v["max"]) else 0.0
                     for x, v in zip(row, spec["inputs"])])
    masks = draw(st.lists(st.integers(0, 2 ** 10 - 1), min_size=64, max_size=64)) if two else []
    if bare:
        v0, o0 = spec["inputs"][0], spec["outputs"][0]
        spec["inputs"].append({"name": "Bare", "description": "", "enabled": True, "min": 0.0, "max": 1.0,
                               "lock_range": False, "terms": []})
        for r in rows:
            r.append(0.5)
        n_old = len(spec["inputs"]) - 1
        for o in spec["outputs"]:
            for t in o["terms"]:
                if t["cls"] == "Linear":  # one coefficient per input variable: the new variable gets 0
                    t["p"] = list(t["p"][:n_old]) + [0.0] + list(t["p"][n_old:])
        spec["blocks"][0]["rules"].append({
            "ante": {"op": draw(st.sampled_from(["and", "or"])),
                     "l": {"var": v0["name"], "hedges": [], "term": v0["terms"][0]["name"], "rp": False},
                     "r": {"var": "Bare", "hedges": ["any"], "term": None, "rp": False}, "rp": False},
            "cons": [{"var": o0["name"], "hedges": [], "term": o0["terms"][0]["name"]}], "weight": None,
            "enabled": True, "tight": False, "loadable": False})
    return {"spec": spec, "rows": rows, "masks": masks, "bare": bare}


def shard(ctx, shard, nshards, ex):
    ctx.hyp("ready", cases(), check_base, ex)


def run(ctx) -> None:
    import sys

    from vlib import runner

    mod = sys.modules[__name__]
    ctx.exhaustive_parts.append("all subsets of the removable components of every generated base engine with <= 8 "
                                "such components (one rule block, one or two outputs)")
    if ctx.tier == "quick":
        runner.run_sharded(ctx, mod, "shard", 8, ex=80)
    else:
        runner.run_sharded(ctx, mod, "shard", 16, ex=400)


def replay(ctx, prop, case) -> None:
    ctx.direct(prop, check_base, [case])
