"""C17 — Function formulas follow the documented precedence, associativity and semantics.

Oracle: typed expression trees are generated and printed (minimal or redundant parentheses, tight or spaced); the
implementation only sees the text. The tree is evaluated by vlib/refformula.py (own operator table, own name->meaning
table); the loaded formula's postfix must equal the tree's post-order print and evaluate (RPN) to the same values;
ill-formed variants (operand deleted, argument added/removed, one parenthesis added/removed) must be rejected.
"""

from __future__ import annotations

import math

import numpy as np
from hypothesis import strategies as st

import fuzzylite as fl
from vlib import refformula as rf

RULE = ("cases are (typed expression tree of depth <= 5 over all 13 operators and 34 functions/constants, literals "
        "with <= 3 decimals, variables among x, engine inputs A B, engine output Y and the term's own k1 k2; printing "
        "style; 1-4 valuations as scalars or as arrays); non-trivial when the tree has >= 2 operators of different "
        "precedence or a right-associative/unary operator next to a binary one; distinct by printed text")
ASSUMPTIONS = [
    "typing as in the statement: results of and/or/! are used only under logical operators or as the final result; "
    "gt ge eq neq le lt are 0/1 indicators usable in arithmetic",
    "literals are non-negative decimals without exponent (the tokenizer splits on + and -); negative values are written "
    "with ~ or .-; a tighter prefix operator applied to a looser prefix expression is printed with parentheses "
    "(`~ ( .- x )`), as any precedence grammar requires",
    "reference meaning of each element: IEEE-754 double semantics of the named mathematical function (numpy scalar "
    "kernels selected by this harness' own table), cross-checked against Python's math module; the comparison "
    "tolerance is 1e-9 relative plus 16x the disagreement between the two references (conditioning of the case)",
    "not defined by the reference (valuation skipped, counted): min/max with a NaN operand, % / fmod with a non-finite "
    "operand",
    "a mismatch that occurs only in array mode on a tree containing a discontinuous element (ceil floor round % fmod "
    "relational logical) while the scalar evaluation agrees is counted `simd_ulp_fragile` and not reported",
]

ENGINE_VARS = ["A", "B", "Y"]
OWN_VARS = ["k1", "rate"]  # a name ending in `e`: `rate-1` must not read as a number with an exponent
ALL_VARS = ["x"] + ENGINE_VARS + OWN_VARS
FN1 = [n for n, a in rf.FN_ARITY.items() if a == 1]
FN2 = ["min", "max", "pow", "atan2", "fmod"]

LIT = st.one_of(st.sampled_from([0.0, 1.0, 2.0, 3.0, 0.5, 10.0, 0.25, 0.001, 7.0]),
                st.integers(0, 20000).map(lambda k: float(f"{k / 1000:.3f}")),
                st.integers(0, 2000000).map(lambda k: float(f"{k / 100000:.5f}")))  # up to 5 decimals


def mk_engine():
    return fl.Engine(name="E", input_variables=[fl.InputVariable("A", minimum=-1e300, maximum=1e300),
                                                fl.InputVariable("B", minimum=-1e300, maximum=1e300)],
                     output_variables=[fl.OutputVariable("Y", minimum=-1e300, maximum=1e300)])


@st.composite
def arith(draw, depth, nvars):
    """Arithmetic-typed tree."""
    if depth <= 0 or draw(st.integers(0, 5)) == 0:
        k = draw(st.integers(0, 9))
        if k <= 3:
            return {"k": "num", "v": draw(LIT)}
        if k == 4:
            return {"k": "fn", "n": "pi", "a": []}
        return {"k": "var", "n": draw(st.sampled_from(nvars))}
    k = draw(st.integers(0, 11))
    rp = draw(st.integers(0, 7)) == 0
    if k <= 4:
        op = draw(st.sampled_from(rf.BINARY_ARITH))
        t = {"k": "op", "n": op, "a": [draw(arith(depth - 1, nvars)), draw(arith(depth - 1, nvars))]}
    elif k <= 6:
        t = {"k": "op", "n": draw(st.sampled_from(["~", ".-", ".+"])), "a": [draw(arith(depth - 1, nvars))]}
    elif k <= 8:
        t = {"k": "fn", "n": draw(st.sampled_from(FN1)), "a": [draw(arith(depth - 1, nvars))]}
    elif k == 9:
        t = {"k": "fn", "n": draw(st.sampled_from(FN2)), "a": [draw(arith(depth - 1, nvars)),
                                                                draw(arith(depth - 1, nvars))]}
    else:
        t = {"k": "fn", "n": draw(st.sampled_from(rf.RELATIONAL)), "a": [draw(arith(depth - 1, nvars)),
                                                                        draw(arith(depth - 1, nvars))]}
    if rp:
        t["rp"] = True
    return t


@st.composite
def truth(draw, depth, nvars):
    """Truth-typed tree (and/or/!) whose operands are truth- or arithmetic-typed."""
    def operand(d):
        if d > 0 and draw(st.integers(0, 2)) == 0:
            return draw(truth(d, nvars))
        return draw(arith(d, nvars))

    k = draw(st.integers(0, 4))
    if k == 0:
        t = {"k": "op", "n": "!", "a": [operand(depth - 1)]}
    else:
        t = {"k": "op", "n": draw(st.sampled_from(["and", "or"])), "a": [operand(depth - 1), operand(depth - 1)]}
    if draw(st.integers(0, 7)) == 0:
        t["rp"] = True
    return t


SPECIAL = [0.0, 1.0, -1.0, 2.0, 0.5, -0.5, 3.0, 10.0, -7.25, 1e3, -1e3, 1e-3, 1e300, math.inf, -math.inf, math.nan,
           math.pi, 100.0]
VALUE = st.one_of(st.sampled_from(SPECIAL), st.floats(-10, 10), st.floats(-1e3, 1e3),
                  st.integers(-5, 5).map(float), st.integers(-20, 20).map(lambda k: k / 4))


@st.composite
def cases(draw):
    nv = draw(st.integers(1, 3))
    nvars = draw(st.permutations(ALL_VARS))[:nv]
    depth = draw(st.sampled_from([1, 2, 2, 3, 3, 4, 5]))
    tree = draw(truth(depth, nvars)) if draw(st.integers(0, 4)) == 0 else draw(arith(depth, nvars))
    if draw(st.integers(0, 5)) == 0:
        # planted: the difference of two near-identical sub-expressions (literals differ from the 4th decimal on)
        sub = draw(arith(min(depth, 3), nvars))
        tree = {"k": "op", "n": draw(st.sampled_from(["-", "/", "+"])),
                "a": [sub, rf.perturbed(sub, draw(st.sampled_from([0.0003, 0.0001, 0.00004])))]}
    n = draw(st.integers(1, 4))
    rows = [{v: draw(VALUE) for v in ALL_VARS} for _ in range(n)]
    return {"tree": tree, "tight": draw(st.booleans()), "rows": rows,
            "mode": draw(st.sampled_from(["scalar", "array", "array", "mixed", "xscalar"])),
            "route": draw(st.sampled_from(["create", "create", "configure", "ctor"])),
            "tolerances": draw(st.sampled_from([None, None, None, [0.1, 0.05], [0.0, 0.5], [1.0, 0.0]]))}


# ------------------------------------------------------------------------------------------------
def close(got: float, ref: float, ref2) -> bool:
    if math.isnan(ref):
        return math.isnan(got)
    if math.isinf(ref):
        return got == ref
    if not math.isfinite(got):
        return False
    tol = 1e-9 * max(1.0, abs(ref))
    if ref2 is not None and math.isfinite(ref2):
        tol += 16 * abs(ref - ref2)
    return abs(got - ref) <= tol


def nontrivial(tree) -> bool:
    ops = [o for o in rf.ops_in(tree) if o in rf.PREC]
    precs = {rf.PREC[o] for o in ops}

    def adjacent(t):
        if t["k"] == "op":
            for c in t["a"]:
                if c["k"] == "op" and ((t["n"] in rf.RIGHT) != (c["n"] in rf.RIGHT) or
                                       (t["n"] in rf.UNARY) != (c["n"] in rf.UNARY)):
                    return True
        return any(adjacent(c) for c in t.get("a", []))

    return len(precs) >= 2 or adjacent(tree)


def to_float(y) -> np.ndarray:
    return np.asarray(y, dtype=float)


def impl_eval(f, engine, row_values, xv, via):
    engine.input_variables[0].value = row_values["A"]
    engine.input_variables[1].value = row_values["B"]
    engine.output_variables[0].value = row_values["Y"]
    own = {k: row_values[k] for k in OWN_VARS}
    if via == "membership":
        f.variables = dict(own)
        return f.membership(xv)
    env = {k: row_values[k] for k in ENGINE_VARS + OWN_VARS}
    env["x"] = xv
    return f.evaluate(env)


def check_formula(ctx, case) -> None:
    tree, tight, mode = case["tree"], case["tight"], case["mode"]
    rows = [dict({v: 0.0 for v in ALL_VARS}, **r) for r in case["rows"]]  # (older replay files lack newer names)
    text = rf.to_text(tree, tight)
    ctx.ev()
    engine = mk_engine()
    route = case.get("route") or "create"
    if route == "create":
        f = fl.Function.create("f", text, engine)
    elif route == "configure":  # a term that already holds another loaded formula is configured with this one
        f = fl.Function.create("f", "2 * x + 1", engine)
        f.membership(1.0)
        f.configure(text)
    else:  # constructor with load=True
        f = fl.Function("f", text, engine, load=True)
    ctx.cls("route:" + route)
    tolerances = case.get("tolerances")
    if tolerances:  # comparison functions are exact whatever the library's printing / comparison tolerances are
        fl.settings.atol, fl.settings.rtol = float(tolerances[0]), float(tolerances[1])
        ctx.cls("non_default_tolerances")
    for o in set(rf.ops_in(tree)):
        ctx.cls("element:" + o)
    ctx.cls("mode:" + mode)
    # structural oracle: postfix of the loaded tree == post-order print of the generated tree
    got_pf = f.root.postfix()
    exp_pf = rf.postfix(tree)
    ctx.check(got_pf == exp_pf, "postfix-structure", case, {"text": text, "got": got_pf, "expected": exp_pf})
    # reference values per row
    refs = []
    exact_literals = rf.three_decimal(tree)
    for env in rows:
        try:
            r1 = rf.evaluate(tree, env)
            r2 = rf.evaluate_py(tree, env)
            rp = rf.rpn(got_pf, env) if exact_literals else r1  # postfix() prints literals with 3 decimals
        except rf.Unknown:
            refs.append(None)
            ctx.cls("valuation_undefined_by_reference")
            continue
        refs.append((r1, r2))
        if not (rp == r1 or (math.isnan(rp) and math.isnan(r1))):
            ctx.fail("postfix-rpn-value", case, {"text": text, "postfix": got_pf, "rpn": rp, "tree": r1, "env": env})
    used = rf.vars_in(tree)
    disc = bool(set(rf.ops_in(tree)) & rf.DISCONTINUOUS)

    def scalar_value(env, via):
        y = impl_eval(f, engine, env, env["x"], via)
        a = to_float(y)
        if a.size != 1:
            ctx.fail("scalar-result-not-scalar", case, {"text": text, "shape": list(a.shape)})
        return float(a.reshape(-1)[0])

    if mode == "scalar":
        for env, ref in zip(rows, refs):
            if ref is None:
                continue
            for via in ("membership", "evaluate"):
                got = scalar_value(env, via)
                if not close(got, ref[0], ref[1]):
                    ctx.fail("value", case, {"text": text, "via": via, "env": {k: env[k] for k in sorted(used)},
                                             "got": got, "expected": ref[0], "expected_math": ref[1]})
    else:
        n = len(rows)
        cols = {}
        for v in ALL_VARS:
            if mode == "xscalar" and v == "x":  # a scalar x next to array-valued variables (also one-row batches)
                for r in rows:
                    r[v] = rows[0][v]
                cols[v] = rows[0][v]
                continue
            if mode == "mixed" and v in ("B", "rate"):
                for r in rows:
                    r[v] = rows[0][v]
                cols[v] = rows[0][v]
            else:
                cols[v] = np.array([r[v] for r in rows], dtype=float)
        # the rows changed for `mixed`: recompute the references
        refs = []
        for env in rows:
            try:
                refs.append((rf.evaluate(tree, env), rf.evaluate_py(tree, env)))
            except rf.Unknown:
                refs.append(None)
        for via in ("membership", "evaluate"):
            y = impl_eval(f, engine, cols, cols["x"], via)
            a = to_float(y)
            if a.ndim > 1 or (a.ndim == 1 and a.shape[0] not in (1, n)):
                ctx.fail("array-result-shape", case, {"text": text, "shape": list(a.shape), "rows": n})
            has_array_var = any(isinstance(cols[v], np.ndarray) for v in used)
            if has_array_var and not (a.ndim == 1 and a.shape[0] == n):
                ctx.fail("array-result-shape", case, {"text": text, "shape": list(a.shape), "rows": n,
                                                      "note": "an array operand must give one value per element"})
            a = np.broadcast_to(a.reshape(-1) if a.ndim else a, (n,))
            for i, (env, ref) in enumerate(zip(rows, refs)):
                if ref is None:
                    continue
                if not close(float(a[i]), ref[0], ref[1]):
                    if disc and close(scalar_value(env, via), ref[0], ref[1]):
                        ctx.cls("simd_ulp_fragile")
                        continue
                    ctx.fail("array-value", case, {"text": text, "via": via, "row": i,
                                                   "env": {k: env[k] for k in sorted(used)},
                                                   "got": float(a[i]), "expected": ref[0], "expected_math": ref[1]})
    # the engine's variable lists are looked up at every evaluation: replace the object behind "A", append another
    # variable, and evaluate once more
    if "A" in used and rows:
        env2 = dict(rows[-1])
        env2["A"] = env2["A"] + 1.0 if math.isfinite(env2["A"]) else 0.5
        try:
            ref2 = (rf.evaluate(tree, env2), rf.evaluate_py(tree, env2))
        except rf.Unknown:
            ref2 = None
        if ref2 is not None:
            engine.input_variables[0] = fl.InputVariable("A", minimum=-1e300, maximum=1e300)
            engine.input_variables.append(fl.InputVariable("Zextra", minimum=0.0, maximum=1.0))
            got2 = float(to_float(impl_eval(f, engine, env2, env2["x"], "membership")).reshape(-1)[0])
            if not close(got2, ref2[0], ref2[1]):
                ctx.fail("value-after-variable-replaced", case, {"text": text, "env": {k: env2[k] for k in sorted(used)},
                                                                 "got": got2, "expected": ref2[0]})
            ctx.cls("variable_object_replaced")
    if nontrivial(tree):
        ctx.nt(text, {"text": text, "postfix": got_pf, "mode": mode,
                      "env": {k: rows[0][k] for k in sorted(used)}, "expected": refs[0][0] if refs[0] else None})


# ------------------------------------------------------------------------------------------------ ill-formed
def subtrees(t, path=()):
    yield path, t
    for i, c in enumerate(t.get("a", [])):
        yield from subtrees(c, path + (i,))


def tokens_of(tree):
    return rf.to_text(tree, False).split()


@st.composite
def bad_cases(draw):
    nvars = draw(st.permutations(ALL_VARS))[:2]
    tree = draw(arith(draw(st.sampled_from([1, 2, 3, 4])), nvars))
    if tree["k"] in ("num", "var") or (tree["k"] == "fn" and not tree["a"]):
        tree = {"k": "op", "n": "+", "a": [tree, {"k": "num", "v": 1.0}]}
    kind = draw(st.sampled_from(["delete_operand", "add_argument", "remove_argument", "add_paren", "remove_paren"]))
    return {"tree": tree, "kind": kind, "pick": draw(st.integers(0, 1000)), "tight": draw(st.booleans()),
            "route": draw(st.sampled_from(["create", "create", "configure"]))}


def break_formula(case):
    """Return the ill-formed text, or None if this kind does not apply to the tree."""
    tree, kind, pick = case["tree"], case["kind"], case["pick"]
    toks = tokens_of(tree)
    if kind == "delete_operand":
        idx = [i for i, t in enumerate(toks) if t not in rf.ARITY and t not in ("(", ")", ",") or t == "pi"]
        if not idx:
            return None
        del toks[idx[pick % len(idx)]]
    elif kind == "add_argument":
        idx = [i for i, t in enumerate(toks) if t in rf.FN_ARITY and rf.FN_ARITY[t] >= 1]
        if not idx:
            return None
        i = idx[pick % len(idx)]
        toks[i + 2:i + 2] = ["1.5", ","]  # f ( 1.5 , ...
    elif kind == "remove_argument":
        idx = [i for i, t in enumerate(toks) if t == ","]
        if idx:
            # remove the first argument of a binary function: tokens from after "(" up to and including ","
            i = idx[pick % len(idx)]
            depth, j = 0, i - 1
            while j >= 0 and not (toks[j] == "(" and depth == 0):
                depth += toks[j] == ")"
                depth -= toks[j] == "("
                j -= 1
            del toks[j + 1:i + 1]
        else:
            idx = [i for i, t in enumerate(toks) if t in rf.FN_ARITY and rf.FN_ARITY[t] == 1
                   and i + 3 < len(toks) + 1 and toks[i + 1] == "(" and toks[i + 3:i + 4] == [")"]]
            if not idx:
                return None
            i = idx[pick % len(idx)]
            del toks[i + 2]  # f ( )
    elif kind == "add_paren":
        i = pick % (len(toks) + 1)
        toks.insert(i, "(" if pick % 2 else ")")
    else:
        idx = [i for i, t in enumerate(toks) if t in ("(", ")")]
        if not idx:
            return None
        del toks[idx[pick % len(idx)]]
    sep = "" if case["tight"] else " "
    out = []
    for t in toks:  # keep words apart even in tight mode
        if out and (out[-1][-1].isalnum() or out[-1][-1] in "._") and (t[0].isalnum() or t[0] in "._"):
            out.append(" ")
        elif out and out[-1] in rf.PREC and t in rf.PREC:
            out.append(" ")  # two operator tokens must not fuse into another operator (`* *` -> `**`)
        elif out and sep:
            out.append(sep)
        out.append(t)
    return "".join(out)


def check_bad(ctx, case) -> None:
    text = break_formula(case)
    if text is None:
        ctx.cls("illformed_kind_not_applicable")
        return
    ctx.ev()
    ctx.cls("illformed:" + case["kind"])
    try:
        if case.get("route") == "configure":
            f = fl.Function.create("f", "2 * x + 1", mk_engine())
            f.configure(text)
        else:
            f = fl.Function.create("f", text, mk_engine())
    except (SyntaxError, ValueError) as ex:
        ctx.cls("rejected:" + type(ex).__name__)
        ctx.nt(["bad", text], {"text": text, "kind": case["kind"], "error": str(ex)[:120]})
        return
    ctx.fail("illformed-accepted", case, {"text": text, "original": rf.to_text(case["tree"]),
                                          "postfix": f.root.postfix() if f.root else None})


# ------------------------------------------------------------------------------------------------ fixed corpus
PROBES = [
    ("~ 2 ^ 2", 4.0), (".- 2 ^ 2", -4.0), ("2 ^ 3 ^ 2", 512.0), ("2 * 3 % 4", 2.0), ("2 ^ .- 3", 0.125),
    ("2 + 3 * 4", 14.0), ("( 2 + 3 ) * 4", 20.0), ("10 - 4 - 3", 3.0), ("100 / 10 / 5", 2.0), ("2 ** 3 ** 2", 512.0),
    ("1 or 0 and 0", 1.0), ("( 1 or 0 ) and 0", 0.0), ("! 0 and 1", 1.0), ("7 % 4 * 2", 6.0), ("2 * 7 % 4", 2.0),
    ("pow ( 2 , 3 )", 8.0), ("atan2 ( 1 , 0 )", math.pi / 2), ("fmod ( 7 , 4 )", 3.0), ("max ( 2 , 3 ) + min ( 2 , 3 )", 5.0),
    ("eq ( 1 , 1 ) + eq ( 2 , 2 )", 2.0), ("ge ( 2 , 2 ) + le ( 2 , 2 ) + neq ( 1 , 2 )", 3.0), (".- eq ( 1 , 1 )", -1.0),
    ("gt ( 3 , 2 ) + lt ( 3 , 2 )", 1.0), ("~ 7 % 4", 1.0), (".- 7 % 4", 1.0), ("2 * pi", 2 * math.pi),
    ("pi ^ 2", math.pi ** 2), ("round ( 2.5 ) + round ( 3.5 )", 6.0), ("abs ( ~ 3 ) + fabs ( .- 4 )", 7.0),
    ("sqrt ( 16 ) * log10 ( 1000 )", 12.0), ("2 - .+ 3", -1.0), ("~ ~ 3", 3.0), ("! ! 3", 1.0),
]


def check_empty(ctx, case) -> None:
    """An empty / whitespace-only formula is not well-formed: every loading route rejects it."""
    text = case["text"]
    for route in ("create", "ctor", "configure", "load"):
        ctx.ev()
        try:
            if route == "create":
                fl.Function.create("f", text, None)
            elif route == "ctor":
                fl.Function("f", text, load=True)
            elif route == "configure":
                fl.Function.create("f", "2 * x", None).configure(text)
            else:
                f = fl.Function("f", text)
                f.load()
        except (SyntaxError, ValueError):
            continue
        ctx.fail("empty-formula-accepted", dict(case, route=route), {"text": repr(text), "route": route})
    ctx.nt(["empty", text], {"text": repr(text)})


def check_probe(ctx, case) -> None:
    ctx.ev()
    text, expected = case["text"], case["expected"]
    for t in (text, text.replace(" ", "") if " and " not in text and " or " not in text else text):
        got = float(to_float(fl.Function.create("f", t, None).evaluate({})))
        ctx.check(abs(got - expected) <= 1e-12 * max(1, abs(expected)), "probe-value", case,
                  {"text": t, "got": got, "expected": expected})
    # array operand for every two-argument function / operator probe, through x
    ctx.nt(["probe", text], {"text": text, "expected": expected})


# ------------------------------------------------------------------------------------------------ fuzzed text
FUZZ_VALUES = [1.5, -2.0, 0.25, 3.0, -0.5]


def tree_vars(node, out):
    if node is None:
        return
    if not node.element and node.variable:
        out.add(node.variable)
    tree_vars(node.left, out)
    tree_vars(node.right, out)


def check_fuzz_text(ctx, case) -> None:
    """Arbitrary text: loading succeeds or raises SyntaxError/ValueError; if it loads and evaluates, the RPN machine on
    the postfix agrees with evaluate()."""
    from vlib import textmut as tm

    text = case["text"]
    ctx.ev()
    try:
        f = fl.Function.create("f", text, None)
    except Exception as ex:  # noqa: BLE001
        if tm.classify(ex) == "internal":
            ctx.fail(f"load-internal-{type(ex).__name__}", case, {"text": text, "exception": str(ex)[:200]})
        ctx.cls(("rejected:" if tm.classify(ex) == "rejected" else "unclassified:") + type(ex).__name__)
        return
    ctx.cls("loaded")
    names: set = set()
    tree_vars(f.root, names)
    envd = {n: FUZZ_VALUES[i % len(FUZZ_VALUES)] for i, n in enumerate(sorted(names))}
    pf = f.root.postfix()
    if not rf.postfix_well_typed(pf):
        ctx.cls("loaded_ill_typed")  # eg, sin of a truth value: outside the statement's domain
        return
    try:
        got = f.evaluate(envd)
        got = float(np.asarray(got, dtype=float))
    except (TypeError, ValueError):  # ill-typed (eg, negating a truth value) or arity met by a non-value: out of scope
        ctx.cls("loaded_not_evaluable")
        return
    try:
        ref = rf.rpn(pf, envd)
    except (rf.Unknown, SyntaxError, KeyError, ValueError):
        ctx.cls("loaded_reference_undefined")
        return
    consts_ok = all(abs(float(t) - float(f"{float(t):.3f}")) == 0 for t in pf.split()
                    if t not in rf.ARITY and t not in envd and _isnum(t))
    if consts_ok and not close(got, ref, None):
        # postfix prints constants with 3 decimals: compare only when the text's literals survive that
        lits = [t for t in f.format_infix(text).split() if _isnum(t)]
        if all(float(f"{float(t):.3f}") == float(t) or not math.isfinite(float(t)) for t in lits):
            ctx.fail("fuzz-postfix-rpn-value", case, {"text": text, "postfix": pf, "got": got, "rpn": ref})
    ctx.nt(text)


def _isnum(t):
    try:
        float(t)
        return True
    except ValueError:
        return False


def shard(ctx, shard, nshards, ex):
    ctx.hyp("formula", cases(), check_formula, ex)
    ctx.hyp("illformed", bad_cases(), check_bad, max(20, ex // 3))


def run(ctx) -> None:
    import sys

    from vlib import runner

    ctx.direct("probe", check_probe, [{"text": t, "expected": v} for t, v in PROBES])
    ctx.direct("empty", check_empty, [{"text": t} for t in ("", " ", "  \t\n", "\n")])
    mod = sys.modules[__name__]
    if ctx.tier == "quick":
        runner.run_sharded(ctx, mod, "shard", 8, ex=2500)
    else:
        runner.run_sharded(ctx, mod, "shard", 16, ex=15000)
        from vlib import fuzzrun

        if fuzzrun.available():
            for corpus in (True, False):
                fuzzrun.run_campaign(ctx, "fuzz_formula", 300000, corpus, "fuzz_formula_text", check_fuzz_text)
        else:
            ctx.note("atheris is not importable here: coverage-guided campaign skipped")


def replay(ctx, prop, case) -> None:
    fn = {"formula": check_formula, "illformed": check_bad, "probe": check_probe,
          "fuzz_formula_text": check_fuzz_text, "empty": check_empty}.get(prop)
    if fn:
        ctx.direct(prop, fn, [case])
