"""C13 — Processing is history-free; restart and copy give clean independent engines (model-based over histories).

Oracle: the *fresh twin* — after every processing step the same spec (with the same edits) is rebuilt from scratch
through the constructors, given the same inputs, processed once: outputs and fuzzy outputs must be identical.
restart() must leave the documented clean state and behave like a fresh engine afterwards; copy() must share no
mutable object with the original (identity walk) and editing/processing either must never change the other.
"""

from __future__ import annotations

import copy as _copy
import enum
import math
import types

import numpy as np
from hypothesis import strategies as st

import fuzzylite as fl
from vlib import build, gen, refmath

RULE = ("cases are (engine spec incl. Linear/Function terms and output variables in antecedents, history of operations "
        "{set inputs (floats or batch), process, process twice, restart, copy and switch, edit a parameter of the "
        "current engine, toggle an enabled flag / process / restore it, process the original} of length <= 25 (thorough "
        "40)); non-trivial when >= 1 process happens after >= 1 other operation and yields a finite output; histories "
        "with a copy followed by an edit are counted separately; distinct by (spec, history)")
ASSUMPTIONS = [
    "twin comparison is exact (NaN-equal): both engines run the same code on the same numbers",
    "the history-free clause is asserted for specs with lock-previous off; for lock-previous on the twin replays all "
    "rows processed since the last restart/construction, and twin comparison is suspended between an edit and the "
    "next restart (the statement only promises restart-equivalence there)",
    "values of *disabled* output variables are not compared (processing leaves them untouched by definition, C12)",
    "identity walk: every object reachable from the copy through instance attributes, lists, tuples, dicts and numpy "
    "object graphs must differ from every object reachable from the original, except immutable atoms (str, numbers, "
    "bool, None, enum members), types, functions/ufuncs and modules",
]

ATOMS = (str, int, float, bool, type(None), enum.Enum, type, types.FunctionType, types.BuiltinFunctionType,
         types.ModuleType, np.ufunc, np.generic, bytes, complex, types.MethodType)


def reach(root):
    seen = {}
    stack = [root]
    while stack:
        o = stack.pop()
        if isinstance(o, ATOMS) or id(o) in seen:
            continue
        if isinstance(o, (list, tuple, set, frozenset)):
            seen[id(o)] = o
            stack.extend(o)
        elif isinstance(o, dict):
            seen[id(o)] = o
            stack.extend(o.values())
        elif isinstance(o, np.ndarray):
            seen[id(o)] = o
        elif hasattr(o, "__dict__"):
            seen[id(o)] = o
            stack.extend(vars(o).values())
        else:
            seen[id(o)] = o
    return seen


def fvec(x):
    return [float(v) for v in np.asarray(x, dtype=float).reshape(-1)]


def snapshot(eng):
    # a disabled output variable is left untouched by processing: its value is not an output of the step
    return {"values": [fvec(v.value) if v.enabled else [] for v in eng.output_variables],
            "fuzzy": [[(a.term.name, fvec(a.degree)) for a in v.fuzzy.terms] for v in eng.output_variables]}


def same_snap(a, b):
    def eqv(x, y):
        return len(x) == len(y) and all((math.isnan(p) and math.isnan(q)) or p == q for p, q in zip(x, y))

    if len(a["values"]) != len(b["values"]) or not all(eqv(x, y) for x, y in zip(a["values"], b["values"])):
        return False
    for fa, fb in zip(a["fuzzy"], b["fuzzy"]):
        if len(fa) != len(fb) or any(x[0] != y[0] or not eqv(x[1], y[1]) for x, y in zip(fa, fb)):
            return False
    return True


def set_inputs(eng, inp):
    if inp is None:
        return
    kind, data = inp
    for j, v in enumerate(eng.input_variables):
        if kind == "row":
            v.value = float(data[j])
        elif kind == "row0d":  # the same row held as 0-d arrays (what fl.scalar(x) gives)
            v.value = np.array(float(data[j]))
        else:
            v.value = np.array([float(r[j]) for r in data])


def apply_edit(eng, spec, ed):
    """Apply the same edit to the engine object and (a deep copy of) its spec; returns the new spec."""
    spec = _copy.deepcopy(spec)
    kind = ed[0]
    if kind == "height":
        vi, ti = ed[1] % len(spec["inputs"]), ed[2]
        ti = ti % len(spec["inputs"][vi]["terms"])
        t = spec["inputs"][vi]["terms"][ti]
        if t["cls"] not in ("Constant", "Linear", "Function"):
            t["h"] = ed[3]
            eng.input_variables[vi].terms[ti].height = ed[3]
    elif kind == "shift":  # move an input term sideways by editing its location attributes in place
        vi, ti = ed[1] % len(spec["inputs"]), ed[2]
        ti = ti % len(spec["inputs"][vi]["terms"])
        t = spec["inputs"][vi]["terms"][ti]
        if t["cls"] not in ("Constant", "Linear", "Function", "Discrete"):
            new = refmath.translate(t, ed[3])
            obj = eng.input_variables[vi].terms[ti]
            attrs = [k for k in vars(obj) if k not in ("name", "height")]
            if len(attrs) == len(new["p"]):
                for k, v in zip(attrs, new["p"]):
                    setattr(obj, k, float(v))
                spec["inputs"][vi]["terms"][ti] = new
    elif kind == "weight":
        bi = ed[1] % len(spec["blocks"])
        ri = ed[2] % len(spec["blocks"][bi]["rules"])
        spec["blocks"][bi]["rules"][ri]["weight"] = ed[3]
        eng.rule_blocks[bi].rules[ri].weight = ed[3]
    elif kind == "operator":
        bi = ed[1] % len(spec["blocks"])
        spec["blocks"][bi]["conjunction"] = ed[2]
        eng.rule_blocks[bi].conjunction = build.mk_norm(ed[2], "t")
    elif kind == "range":
        oi = ed[1] % len(spec["outputs"])
        o = spec["outputs"][oi]
        o["min"], o["max"] = o["min"] - ed[2], o["max"] + ed[2]
        eng.output_variables[oi].range = (o["min"], o["max"])
    elif kind == "default":
        oi = ed[1] % len(spec["outputs"])
        spec["outputs"][oi]["default"] = ed[2]
        eng.output_variables[oi].default_value = ed[2]
    elif kind == "ruletext":
        bi = ed[1] % len(spec["blocks"])
        src = ed[2] % len(spec["blocks"][bi]["rules"])
        dst = ed[3] % len(spec["blocks"][bi]["rules"])
        new = _copy.deepcopy(spec["blocks"][bi]["rules"][src])
        new["enabled"] = spec["blocks"][bi]["rules"][dst].get("enabled", True)
        spec["blocks"][bi]["rules"][dst] = new
        r = eng.rule_blocks[bi].rules[dst]
        r.text = gen.rule_text(new)
        if new.get("weight") is not None:
            r.weight = float(new["weight"])  # the text carries the weight at 3 decimals only
        r.load(eng)
    return spec


def toggle(eng, spec, which, value=None):
    kind, i = which
    objs = {"input": eng.input_variables, "output": eng.output_variables, "block": eng.rule_blocks}[kind]
    specs = {"input": spec["inputs"], "output": spec["outputs"], "block": spec["blocks"]}[kind]
    i = i % len(objs)
    new = (not objs[i].enabled) if value is None else value
    objs[i].enabled = new
    specs[i]["enabled"] = new
    return i


def check_history(ctx, case) -> None:
    spec0, ops = case["spec"], case["ops"]
    lockprev = any(v.get("lock_previous") for v in spec0["outputs"])
    cur_spec = _copy.deepcopy(spec0)
    cur = build.mk_engine(cur_spec, explicit_weights=True)
    orig = orig_spec = None
    orig_suspended = False
    inputs = None
    since = []          # inputs processed since construction/restart (for lock-previous replay)
    twin_ok = True      # twin comparison currently meaningful for lock-previous specs
    suspended = False   # a rule was unloaded / re-texted without loading: only restart() promises a clean engine
    n_ops = 0
    processed_after_other = finite = copied = edited_after_copy = False
    probe = ("row", case["probe"])

    def twin_check(label, sub):
        nonlocal finite
        if suspended:
            return
        if (lockprev and not twin_ok) or suspended:
            return
        tw = build.mk_engine(_copy.deepcopy(cur_spec), explicit_weights=True)
        seq = since if lockprev else since[-1:]
        for inp in seq:
            set_inputs(tw, inp)
            tw.process()
        a, b = snapshot(cur), snapshot(tw)
        ctx.check(same_snap(a, b), label, sub, {"engine": a, "fresh_twin": b})
        if any(math.isfinite(x) for vs in a["values"] for x in vs):
            finite = True

    for k, op in enumerate(ops):
        sub = dict(case, ops=ops[: k + 1])
        kind = op[0]
        ctx.ev()
        if kind == "set":
            inputs = (op[1], op[2])
            set_inputs(cur, inputs)
        elif kind in ("process", "process2"):
            if inputs is None:
                inputs = ("row", case["probe"])
                set_inputs(cur, inputs)
            before_in = [fvec(v.value) for v in cur.input_variables]
            cur.process()
            since.append(inputs)
            after_in = [fvec(v.value) for v in cur.input_variables]
            ctx.check(all(len(a) == len(b) and all(x == y or (x != x and y != y) for x, y in zip(a, b))
                          for a, b in zip(before_in, after_in)), "process-changed-input-values", sub,
                      {"before": before_in, "after": after_in})
            if kind == "process2":
                first = snapshot(cur)
                if not lockprev:
                    cur.process()
                    since.append(inputs)
                    ctx.check(same_snap(first, snapshot(cur)), "process-twice-differs", sub,
                              {"first": first, "second": snapshot(cur)})
            twin_check("history-dependence", sub)
            if n_ops > 0:
                processed_after_other = True
        elif kind == "restart":
            cur.restart()
            since, twin_ok, inputs, suspended = [], True, None, False
            bad = []
            for v in cur.input_variables:
                if not all(math.isnan(x) for x in fvec(v.value)):
                    bad.append(("input", v.name))
            for v in cur.output_variables:
                if not all(math.isnan(x) for x in fvec(v.value)) or not math.isnan(float(v.previous_value)) \
                        or v.fuzzy.terms:
                    bad.append(("output", v.name))
            for rb in cur.rule_blocks:
                for r in rb.rules:
                    if not r.is_loaded():
                        bad.append(("rule-not-loaded", r.text))
            ctx.check(not bad, "restart-state", sub, {"not_clean": bad})
            ctx.cls("restarts")
            # "after restart() the engine behaves exactly like a freshly built one": process the probe row at once
            inputs = probe
            set_inputs(cur, inputs)
            cur.process()
            since.append(inputs)
            twin_check("restart-not-like-fresh", sub)
        elif kind == "copy":
            orig, orig_spec, orig_suspended = cur, _copy.deepcopy(cur_spec), suspended
            cur = orig.copy()
            copied = True
            ra, rb_ = reach(orig), reach(cur)
            shared = [type(o).__name__ for i, o in rb_.items() if i in ra]
            ctx.check(not shared, "copy-shares-objects", sub, {"shared_types": sorted(set(shared))})
            for v in cur.variables:
                for t in v.terms:
                    if isinstance(t, (fl.Linear, fl.Function)):
                        ctx.check(t.engine is cur, "copy-term-engine-reference", sub, {"term": t.name})
            ids = {id(v) for v in cur.variables} | {id(t) for v in cur.variables for t in v.terms}
            for rb in cur.rule_blocks:
                for r in rb.rules:
                    props = list(r.consequent.conclusions)
                    stack = [r.antecedent.expression]
                    while stack:
                        e = stack.pop()
                        if isinstance(e, fl.Proposition):
                            props.append(e)
                        elif e is not None:
                            stack += [e.left, e.right]
                    for p in props:
                        ok = id(p.variable) in ids and (p.term is None or id(p.term) in ids)
                        ctx.check(ok, "copy-proposition-reference", sub, {"rule": r.text})
            # identical results on a probe row (does not disturb `since` semantics for lock-previous: suspend twin)
            if not lockprev:
                set_inputs(orig, probe)
                set_inputs(cur, probe)
                orig.process()
                cur.process()
                ctx.check(same_snap(snapshot(orig), snapshot(cur)), "copy-differs", sub,
                          {"original": snapshot(orig), "copy": snapshot(cur)})
                since.append(probe)
                inputs = probe
            ctx.cls("copies")
        elif kind == "edit":
            before = None
            if orig is not None and not lockprev:
                set_inputs(orig, probe)
                orig.process()
                before = snapshot(orig)
            cur_spec = apply_edit(cur, cur_spec, op[1])
            twin_ok = False if lockprev else True
            if orig is not None:
                edited_after_copy = True
                if before is not None:
                    orig.process()
                    ctx.check(same_snap(before, snapshot(orig)), "edit-of-copy-changed-original", sub,
                              {"edit": op[1], "before": before, "after": snapshot(orig)})
            ctx.cls("edit:" + op[1][0])
            if inputs is not None and not lockprev:
                # an edit must take effect at the next step exactly as in a freshly built engine (no stale state)
                set_inputs(cur, inputs)
                cur.process()
                since.append(inputs)
                twin_check("stale-state-after-edit", sub)
        elif kind == "toggle":
            i = toggle(cur, cur_spec, op[1])
            if inputs is not None:
                cur.process()
                since.append(inputs)
                if not lockprev:
                    # with the flag toggled the step must equal a fresh engine built with that flag (eg, a disabled block
                    # leaves every output at NaN / its default, not at the previous step's value)
                    twin_check("history-dependence-while-toggled", sub)
            toggle(cur, cur_spec, op[1])  # restore
            if lockprev:
                twin_ok = False
            ctx.cls("toggle:" + op[1][0])
            _ = i
        elif kind == "flip":  # persistent change of an enabled flag (the spec follows)
            toggle(cur, cur_spec, op[1])
            if lockprev:
                twin_ok = False
            ctx.cls("flip:" + op[1][0])
        elif kind == "unload":
            bi = op[1] % len(cur.rule_blocks)
            ri = op[2] % len(cur.rule_blocks[bi].rules)
            cur.rule_blocks[bi].rules[ri].unload()
            suspended = True
            ctx.cls("unload_rule")
        elif kind == "retext":  # change a rule's text without loading it: restart() must pick the new text up
            bi = op[1] % len(cur_spec["blocks"])
            src = op[2] % len(cur_spec["blocks"][bi]["rules"])
            dst = op[3] % len(cur_spec["blocks"][bi]["rules"])
            cur_spec = _copy.deepcopy(cur_spec)
            new = _copy.deepcopy(cur_spec["blocks"][bi]["rules"][src])
            new["enabled"] = cur_spec["blocks"][bi]["rules"][dst].get("enabled", True)
            cur_spec["blocks"][bi]["rules"][dst] = new
            cur.rule_blocks[bi].rules[dst].text = gen.rule_text(new)
            if new.get("weight") is not None:
                cur.rule_blocks[bi].rules[dst].weight = float(new["weight"])
            suspended = True
            ctx.cls("retext_without_load")
        elif kind == "process_orig":
            if orig is None:
                continue
            keep = snapshot(cur)
            set_inputs(orig, ("row", op[1]))
            orig.process()
            ctx.check(same_snap(keep, snapshot(cur)), "processing-original-changed-copy", sub,
                      {"before": keep, "after": snapshot(cur)})
            if not any(v.get("lock_previous") for v in orig_spec["outputs"]) and not orig_suspended:
                tw = build.mk_engine(_copy.deepcopy(orig_spec), explicit_weights=True)
                set_inputs(tw, ("row", op[1]))
                tw.process()
                ctx.check(same_snap(snapshot(orig), snapshot(tw)), "original-history-dependence", sub,
                          {"original": snapshot(orig), "fresh_twin": snapshot(tw)})
        n_ops += 1
    ctx.cls("lock_previous_spec" if lockprev else "history_free_spec")
    if processed_after_other and finite:
        ctx.nt(case, {"rules": [[gen.rule_text(r) for r in b["rules"]] for b in spec0["blocks"]], "ops": ops})
        if copied and edited_after_copy:
            ctx.cls("copy_then_edit")


@st.composite
def cases(draw, maxlen=25):
    lp = draw(st.integers(0, 4)) == 0
    nongeneral = draw(st.integers(0, 4)) == 0
    other = st.sampled_from([{"cls": "First", "rules": 1, "threshold": 0.0}, {"cls": "Last", "rules": 2, "threshold": 0.25},
                             {"cls": "Highest", "rules": 1}, {"cls": "Lowest", "rules": 2}, {"cls": "Proportional"},
                             {"cls": "Threshold", "comparator": ">", "threshold": 0.25}])
    spec = draw(gen.engine(activation=other if nongeneral else gen.activation_general(), functions=True))
    for v in spec["outputs"]:
        if not lp:
            v["lock_previous"] = False
    if draw(st.integers(0, 9)) == 0:
        # planted family: an input term whose membership is its argument itself (Function "x"), concluded by unweighted
        # single-proposition rules under Proportional activation (which rescales rule degrees): nothing may alias the
        # input values
        iv, ov = spec["inputs"][0], spec["outputs"][0]
        iv["terms"].append({"cls": "Function", "formula": "x", "p": [], "h": 1.0, "name": "raw"})
        b0 = spec["blocks"][0]
        b0["activation"] = {"cls": "Proportional"}
        b0["enabled"] = True
        b0["rules"] = [{"ante": {"var": iv["name"], "hedges": [], "term": t["name"], "rp": False},
                        "cons": [{"var": ov["name"], "hedges": [], "term": ov["terms"][k % len(ov["terms"])]["name"]}],
                        "weight": None, "enabled": True, "tight": False}
                       for k, t in enumerate(reversed(iv["terms"][-2:]))] + b0["rules"][:1]
        nongeneral = True
    row = gen.input_row(spec)
    nb, no, ni = len(spec["blocks"]), len(spec["outputs"]), len(spec["inputs"])
    edit = st.one_of(
        st.tuples(st.just("height"), st.integers(0, 3), st.integers(0, 3), st.sampled_from([0.5, 0.25, 1.0])).map(list),
        st.tuples(st.just("shift"), st.integers(0, 3), st.integers(0, 3), st.sampled_from([0.125, -0.25, 0.5])).map(list),
        st.tuples(st.just("weight"), st.integers(0, 1), st.integers(0, 5), st.sampled_from([0.5, 0.25, 0.0, 1.0, 0.12345, 0.9996, 0.0004])).map(list),
        st.tuples(st.just("operator"), st.integers(0, 1), st.sampled_from(["AlgebraicProduct", "Minimum", "BoundedDifference"])).map(list),
        st.tuples(st.just("range"), st.integers(0, 1), st.sampled_from([0.5, 1.0, 8.0])).map(list),
        st.tuples(st.just("default"), st.integers(0, 1), st.sampled_from([0.0, 1.5, math.nan])).map(list),
        st.tuples(st.just("ruletext"), st.integers(0, 1), st.integers(0, 5), st.integers(0, 5)).map(list))
    which = st.tuples(st.sampled_from(["input", "output", "block"]), st.integers(0, 2)).map(list)
    op = st.one_of(
        st.tuples(st.just("set"), st.just("row"), row).map(list),
        st.tuples(st.just("set"), st.just("row"), row).map(list),
        st.tuples(st.just("set"), st.just("batch"), st.lists(row, min_size=1, max_size=4)).map(list),
        st.just(["process"]), st.just(["process"]), st.just(["process2"]), st.just(["restart"]), st.just(["copy"]),
        st.tuples(st.just("edit"), edit).map(list), st.tuples(st.just("toggle"), which).map(list),
        st.tuples(st.just("flip"), which).map(list),
        st.tuples(st.just("process_orig"), row).map(list),
        st.tuples(st.just("unload"), st.integers(0, 1), st.integers(0, 5)).map(list),
        st.tuples(st.just("retext"), st.integers(0, 1), st.integers(0, 5), st.integers(0, 5)).map(list))
    ops = draw(st.lists(op, min_size=2, max_size=maxlen))
    if draw(st.integers(0, 3)) == 0:
        # planted pattern: use the engine, edit it, restart, use it again (restart must keep programmatic edits and
        # behave like a fresh engine with those edits)
        ops = ops[: maxlen - 5] + [["set", "row", draw(row)], ["process"], ["edit", draw(edit)], ["restart"], ["process"]]
    elif draw(st.integers(0, 5)) == 0:
        # planted pattern: restart while a component is disabled, then enable it again
        w = draw(which)
        ops = ops[: maxlen - 6] + [["set", "row", draw(row)], ["process"], ["flip", w], ["restart"], ["flip", w], ["process"]]
    _ = nb, no, ni
    if nongeneral:  # the other activation methods take scalar inputs only
        ops = [["set", "row", o[2][0]] if o[0] == "set" and o[1] == "batch" else o for o in ops]
    if draw(st.booleans()):  # rows given as 0-d arrays instead of Python floats
        ops = [["set", "row0d", o[2]] if o[0] == "set" and o[1] == "row" else o for o in ops]
    return {"spec": spec, "ops": ops, "probe": draw(row)}


def shard(ctx, shard, nshards, ex, maxlen):
    ctx.hyp("history", cases(maxlen), check_history, ex)


def run(ctx) -> None:
    import sys

    from vlib import runner

    mod = sys.modules[__name__]
    if ctx.tier == "quick":
        runner.run_sharded(ctx, mod, "shard", 8, ex=350, maxlen=25)
    else:
        runner.run_sharded(ctx, mod, "shard", 16, ex=1500, maxlen=40)


def replay(ctx, prop, case) -> None:
    if prop == "history":
        ctx.direct(prop, check_history, [case])
