"""C10 — Weighted defuzzifiers compute the grouped weighted average / sum.

Oracle: reference grouping + weighted average/sum written from the statement (vlib.refengine.Ref.weighted), the
zero-degree metamorphic relation, the convexity bound for constants.
"""

from __future__ import annotations

import math

import numpy as np
from hypothesis import strategies as st

import fuzzylite as fl
from vlib import build, gen, implmu, refengine, refmath

RULE = ("cases are (defuzzifier class and type, aggregation operator or none, 1-4 terms of one or mixed kinds, 0-6 "
        "activations with repetitions, scalar or batch degrees, input values for Linear/Function terms); non-trivial "
        "when >= 2 groups have positive weight, or a term is repeated, or a zero-degree activation sits next to a "
        "positive one; distinct by the whole case")
ASSUMPTIONS = [
    "Tsukamoto z from the documented inverse (vlib.refmath.tsukamoto); results compared within 1e-9 relative to the "
    "magnitude of the operands (1e-6 when an Arc inverse near its end is involved: root of a cancelling difference)",
    "Tsukamoto groups whose aggregated degree lies outside (0, height) (possible with UnboundedSum or degree == height) "
    "have no defined Tsukamoto value for Sigmoid/Concave/Arc/S/Z: the value is not compared (counted as undefined)",
    "membership of non-monotonic shape terms at w (inverse Tsukamoto) is taken from fresh term objects evaluated "
    "pointwise (C03 decides membership functions)",
    "positive degrees are >= 2^-60 (below that w*z underflows: a floating-point representation limit)",
    "Function terms are restricted here to two templates with closed-form references (c1*input+c2, x*c); C17 decides "
    "formulas in general",
]

KINDS = {"ts": ["Constant", "Linear", "Function"], "mono": list(refmath.MONOTONIC),
         "other": [c for c in refmath.SHAPES if c not in refmath.MONOTONIC]}


def mk(case, row=None, extra=None):
    """Build a tiny engine (inputs with values) and the Aggregated fuzzy output."""
    inputs = [fl.InputVariable(name=f"I{i + 1}", minimum=-1000.0, maximum=1000.0) for i in range(len(case["inputs"]))]
    eng = fl.Engine(name="E", input_variables=inputs)
    for v, x in zip(inputs, case["inputs"]):
        v.value = float(x)
    terms = {}
    for t in case["terms"]:
        if t["cls"] == "Function":
            terms[t["name"]] = fl.Function.create(t["name"], t["formula"], eng)
        else:
            terms[t["name"]] = build.mk_term(t, eng)
    acts = []
    for a in case["acts"] + (extra or []):
        d = a["degree"]
        if isinstance(d, list):
            d = np.array(d, dtype=float) if row is None else float(d[row])
        acts.append(fl.Activated(terms[a["term"]], d, None))
    agg = fl.Aggregated("Y", -1000.0, 1000.0, build.mk_norm(case["aggregation"], "s"), acts)
    dz = getattr(fl, case["defuzzifier"])(case["type"])
    return eng, agg, dz, terms


def ref_for(case, row=None, extra=None):
    var = {"name": "Y", "terms": case["terms"], "aggregation": case["aggregation"],
           "defuzzifier": {"cls": case["defuzzifier"], "type": case["type"]}}
    contribs = []
    for a in case["acts"] + (extra or []):
        d = a["degree"]
        if isinstance(d, list):
            d = d[row if row is not None else 0]
        contribs.append((a["term"], refengine.nan_to_num(float(d)), None))
    r = refengine.Ref({"inputs": [], "outputs": [var], "blocks": []}, mu=implmu.impl_mu)
    return r.weighted(var, contribs, [float(x) for x in case["inputs"]], refengine.Trace()), contribs


def close(got, want, scale, loose=False):
    if math.isnan(got) or math.isnan(want):
        return math.isnan(got) and math.isnan(want)
    if math.isinf(got) or math.isinf(want):
        return got == want
    return abs(got - want) <= (1e-6 if loose else 1e-9) * scale + 1e-300


def check_weighted(ctx, case) -> None:
    batch = any(isinstance(a["degree"], list) for a in case["acts"])
    nrows = max([len(a["degree"]) for a in case["acts"] if isinstance(a["degree"], list)] or [1])
    eng, agg, dz, terms = mk(case)
    ctx.ev()
    ctx.cls(f"{case['defuzzifier']}/{case['type']}")
    ctx.cls("batch" if batch else "scalar")
    # 1. grouping
    groups = agg.grouped_terms()
    (_, _), contribs0 = (None, None), None
    for row in range(nrows):
        want_g = refengine.group([(a["term"], float(a["degree"][row]) if isinstance(a["degree"], list)
                                   else float(a["degree"])) for a in case["acts"]], case["aggregation"])
        ctx.check(list(groups) == list(want_g), "group-order", case, {"got": list(groups), "want": list(want_g)})
        for name, w in want_g.items():
            g = np.asarray(groups[name].degree, dtype=float).reshape(-1)
            gv = float(g[row] if g.size > 1 else g[0])
            ctx.check(groups[name].term is terms[name], "group-term-identity", case, {"group": name})
            ctx.check(gv == w or abs(gv - w) <= 1e-12 + 4 * math.ulp(max(abs(gv), abs(w))), "group-degree", case,
                      {"group": name, "got": gv, "want": w, "row": row})
        for t in case["terms"]:
            # grouping is by term *name*: any term object carrying the name asks for the same group
            query = terms[t["name"]] if row % 2 == 0 else (
                fl.Triangle(t["name"], 0.0, 1.0, 2.0) if t["cls"] == "Function" else build.mk_term(t, eng))
            ad = np.asarray(agg.activation_degree(query), dtype=float).reshape(-1)
            av = float(ad[row] if ad.size > 1 else ad[0])
            w = want_g.get(t["name"], 0.0)
            ctx.check(av == w or abs(av - w) <= 1e-12 + 4 * math.ulp(max(abs(av), abs(w))), "activation-degree",
                      case, {"term": t["name"], "got": av, "want": w})
    # 2. defuzzified value (optionally after the same defuzzifier object served an output of another kind)
    if case.get("warmup"):
        wterm = {"ts": fl.Constant("wc", 1.5), "mono": fl.Ramp("wr", 0.0, 2.0),
                 "other": fl.Triangle("wt", 0.0, 1.0, 2.0)}[case["warmup"]]
        try:
            dz.defuzzify(fl.Aggregated("W", 0.0, 2.0, None, [fl.Activated(wterm, 0.5, None)]))
        except (TypeError, RuntimeError, ValueError):
            pass  # eg, explicit Tsukamoto type on a non-monotonic term: irrelevant here
        ctx.cls("warmup:" + case["warmup"])
        ctx.check(dz.type.name == case["type"] and dz.parameters() == ("" if case["type"] == "Automatic" else case["type"]),
                  "configured-type-changed-by-use", case, {"type": dz.type.name, "parameters": dz.parameters()})
    if case.get("warmup_agg"):
        # the same fuzzy-output object first held nothing / terms of another kind (an OutputVariable keeps one
        # Aggregated for its whole life): the kind is inferred from what it holds now
        saved = list(agg.terms)
        wt = {"empty": [], "ts": [fl.Activated(fl.Constant("wc", 1.5), 0.5, None)],
              "mono": [fl.Activated(fl.Ramp("wr", 0.0, 2.0), 0.5, None)]}[case["warmup_agg"]]
        agg.terms = list(wt)
        try:
            getattr(fl, case["defuzzifier"])(case["type"]).defuzzify(agg)
            dz.defuzzify(agg)
        except (TypeError, RuntimeError, ValueError):
            pass
        agg.terms = saved
        ctx.cls("warmup_agg:" + case["warmup_agg"])
    outcome = None
    try:
        z = dz.defuzzify(agg)
        outcome = ("value", np.asarray(z, dtype=float).reshape(-1))
    except (TypeError, RuntimeError, ValueError) as ex:
        outcome = (type(ex).__name__, str(ex))
    nontrivial = False
    for row in range(nrows):
        try:
            (want, info), contribs = ref_for(case, row if batch else None)
        except refengine.RefError as e:
            ctx.check(outcome[0] == e.kind, "expected-rejection", case, {"want": e.kind, "got": outcome[0],
                                                                         "message": str(outcome[1])[:200]})
            ctx.cls("rejected:" + e.kind)
            if row == 0:
                ctx.nt(case, {"case": case, "outcome": outcome[0]})
            return
        except refengine.Undefined:
            ctx.cls("undefined_tsukamoto")
            continue
        ctx.check(outcome[0] == "value", "unexpected-rejection", case, {"got": outcome[0], "message": str(outcome[1])[:300]})
        zs = outcome[1]
        ctx.check(zs.size == nrows, "result-shape", case, {"size": int(zs.size), "rows": nrows})
        got = float(zs[row])
        ws = info.get("weights") or {}
        tmap = {t["name"]: t for t in case["terms"]}
        scale = 1.0
        arc = False
        for name, w in ws.items():
            if w > 0 and info["kind"] == "Tsukamoto":
                arc = arc or tmap[name]["cls"] == "Arc"
            try:
                zi = refmath.tsukamoto(tmap[name], w) if info["kind"] == "Tsukamoto" and w > 0 else \
                    refengine.term_value(tmap[name], w, [float(x) for x in case["inputs"]])
                if math.isfinite(zi):
                    scale = max(scale, abs(zi) * (max(w, 1.0) if case["defuzzifier"] == "WeightedSum" else 1.0))
            except Exception:  # noqa: BLE001
                pass
        if case["defuzzifier"] == "WeightedSum":
            scale *= max(1.0, len(ws))
        ctx.check(close(got, want, scale, loose=arc), "value", dict(case, row=row),
                  {"got": got, "want": want, "kind": info.get("kind"), "weights": ws, "row": row})
        empty = not case["acts"] or all(w == 0.0 for w in ws.values())
        if empty:
            ctx.check(math.isnan(got), "nan-when-empty", dict(case, row=row), {"got": got})
            ctx.cls("empty_or_zero_weights")
        pos = [n for n, w in ws.items() if w > 0]
        names = [a["term"] for a in case["acts"]]
        zero_next = any(w == 0.0 for w in ws.values()) and pos
        if len(pos) >= 2 or len(set(names)) < len(names) or zero_next:
            nontrivial = True
        # convexity for constants
        if case["defuzzifier"] == "WeightedAverage" and pos and all(tmap[n]["cls"] == "Constant" for n in pos) \
                and not math.isnan(got) and all(math.isfinite(float(tmap[n]["p"][0])) for n in pos):
            vals = [float(tmap[n]["p"][0]) for n in pos]
            slack = 1e-12 * max(1.0, max(abs(v) for v in vals))
            ctx.check(min(vals) - slack <= got <= max(vals) + slack, "constants-convex", dict(case, row=row),
                      {"got": got, "min": min(vals), "max": max(vals)})
            ctx.cls("convexity_checked")
        # zero-degree activation never changes the result
        if not batch:
            kind = info.get("kind")
            for t in case["terms"]:
                k = "TakagiSugeno" if t["cls"] in KINDS["ts"] else "Tsukamoto" if t["cls"] in KINDS["mono"] else "Automatic"
                if kind is not None and k != kind and case["type"] == "Automatic":
                    continue
                if case["type"] == "Tsukamoto" and t["cls"] not in KINDS["mono"]:
                    continue
                extra = [{"term": t["name"], "degree": 0.0}]
                try:
                    (want2, _), _ = ref_for(case, None, extra)
                except (refengine.RefError, refengine.Undefined):
                    continue
                _e, agg2, dz2, _t = mk(case, None, extra)
                got2 = float(np.asarray(dz2.defuzzify(agg2), dtype=float).reshape(-1)[0])
                same = (math.isnan(got) and math.isnan(got2)) or close(got2, got, scale, loose=arc)
                ctx.check(same, "zero-degree-changes-result", dict(case, zero_term=t["name"]),
                          {"before": got, "after": got2, "added": t["name"], "term_class": t["cls"]})
                ctx.cls("zero_degree_relation_checked")
    if nontrivial:
        ctx.nt(case, {"case": case, "result": [float(v) for v in outcome[1]] if outcome[0] == "value" else outcome[0]})


@st.composite
def cases(draw):
    rg = draw(gen.regime())
    ni = draw(st.integers(1, 2))
    inputs = [draw(st.one_of(gen.loc(rg), st.sampled_from([0.0, 1.0]))) for _ in range(ni)]
    mix = draw(st.integers(0, 9)) == 0
    kind = draw(st.sampled_from(["ts", "ts", "mono", "mono", "other"]))
    nt = draw(st.integers(1, 4))
    names = draw(st.permutations(gen.TERM_NAMES))[:nt]
    terms = []
    for nm in names:
        k = draw(st.sampled_from(["ts", "mono", "other"])) if mix else kind
        cls = draw(st.sampled_from(KINDS[k]))
        if cls == "Constant":
            # a constant may be infinite or not yet configured (NaN): at degree 0 it still contributes nothing
            val = draw(gen.loc(rg)) if draw(st.integers(0, 7)) else draw(st.sampled_from([math.inf, -math.inf, math.nan]))
            terms.append({"cls": "Constant", "p": [val], "h": 1.0, "name": nm})
        elif cls == "Linear":
            n = ni + draw(st.integers(0, 1))
            terms.append({"cls": "Linear", "p": [draw(gen.loc(rg)) for _ in range(n)], "h": 1.0, "name": nm})
        elif cls == "Function":
            if draw(st.booleans()):
                c1, c2, k_in = draw(st.integers(0, 50)) / 8, draw(st.integers(0, 50)) / 8, draw(st.integers(0, ni - 1))
                terms.append({"cls": "Function", "formula": f"{c1:.3f} * I{k_in + 1} + {c2:.3f}", "p": [], "h": 1.0,
                              "name": nm, "ref": ["lin", c1, c2, k_in]})
            else:
                c = draw(st.integers(0, 50)) / 8
                terms.append({"cls": "Function", "formula": f"x * {c:.3f}", "p": [], "h": 1.0, "name": nm,
                              "ref": ["xmul", c]})
        else:
            terms.append(draw(gen.shape_term(cls=cls, rg=rg, name=nm)))
    batch = draw(st.integers(0, 3)) == 0
    m = draw(st.integers(2, 5)) if batch else 1
    na = draw(st.sampled_from([0, 1, 2, 2, 3, 4, 5, 6]))
    # degrees stay in [0, 1]: above 1 (only a rule weight above the documented [0, 1] produces them) the bounded S-norms
    # are no longer neutral at 0 and the statement's own zero-degree clause fails on the unchanged code
    deg = st.one_of(gen.unit_degree(), st.sampled_from([0.0, 0.0, 1.0]))
    acts = []
    for _ in range(na):
        d = draw(st.lists(deg, min_size=m, max_size=m)) if batch else draw(deg)
        acts.append({"term": draw(st.sampled_from(names)), "degree": d})
    return {"defuzzifier": draw(st.sampled_from(["WeightedAverage", "WeightedSum"])),
            "type": draw(st.sampled_from(["Automatic", "Automatic", "TakagiSugeno", "Tsukamoto"])),
            "aggregation": draw(st.sampled_from(refmath.SNORMS + [None, None, None])),
            "inputs": inputs, "terms": terms, "acts": acts,
            # the same defuzzifier object is first used on another output (a defuzzifier holds no state between calls)
            "warmup": draw(st.sampled_from([None, None, "ts", "mono", "other"])),
            "warmup_agg": draw(st.sampled_from([None, None, None, "empty", "ts", "mono"]))}


def shard(ctx, shard, nshards, ex):
    ctx.hyp("weighted", cases(), check_weighted, ex)


def run(ctx) -> None:
    import sys

    from vlib import runner

    mod = sys.modules[__name__]
    if ctx.tier == "quick":
        runner.run_sharded(ctx, mod, "shard", 8, ex=400)
    else:
        runner.run_sharded(ctx, mod, "shard", 16, ex=8000)


def replay(ctx, prop, case) -> None:
    if prop == "weighted":
        case = {k: v for k, v in case.items() if k not in ("row", "zero_term")}
        ctx.direct(prop, check_weighted, [case])
