"""C15 — Python export reconstructs an identical engine.

Oracle: execute the library's import statement and the generated code in a fresh namespace; the rebuilt object's
repr and FLL export must equal the original's, and (under the statement's precondition on heights/weights) outputs
must be bit-identical on generated rows. Engines and each component on its own; aliases; plain / encapsulated;
formatted / unformatted.
"""

from __future__ import annotations

import math

import numpy as np
from hypothesis import strategies as st

import fuzzylite as fl
from checks import c14_fll
from vlib import build, gen

RULE = ("cases are (engine spec as in C14 with arbitrary finite double parameters, +-inf ranges, NaN defaults, quotes and "
        "backslashes in descriptions, Function terms with their own variables map, rule weights on the decimals grid; "
        "alias in {fl, '', *, custom}; form in {repr, exporter plain, exporter encapsulated}; formatted or not; decimals; "
        "input rows); every component of the engine is also exported on its own; non-trivial when the engine has >= 1 "
        "rule and >= 1 field that __repr__ may drop or must keep (enabled=False, description, height != 1, non-default "
        "resolution/type, variables map); distinct by (spec, alias, form)")
ASSUMPTIONS = [
    "format limits (not code defects): Rule.__repr__ is Rule.create('<text>') and cannot carry Rule.enabled -> rules are "
    "generated enabled; resolution / rule counts are ints",
    "outputs are compared (bit-identical, NaN-equal) only under the statement's precondition: heights and weights equal to "
    "1 or further than 2*atol from 1, rule weights representable at the configured decimals; repr and FLL equality are "
    "asserted for every engine",
    "formatted variants use the black installed in /venv (a 12% minority of cases: black costs ~50 ms per engine); if "
    "black were missing the exporter documents falling back to unformatted code",
    "engine names are identifiers (the encapsulating class is named after the engine)",
]

ALIASES = ["fl", "fl", "", "*", "fuzzy", "_f1"]
DESCR = ["", "", "a description", "it's got 'single' quotes", 'and "double" quotes', "back\\slash \\n not a newline",
         "both ' and \"", "unicode é ü 数", "trailing backslash \\", "{braces} %s %d", "'", '"""', "#hash: colon"]


def rebuild(code: str, form: str, name: str, is_engine: bool):
    ns: dict = {}
    exec(fl.representation.import_statement(), ns)  # noqa: S102 - the property is about executing this code
    if form == "encapsulated":
        exec(code, ns)  # noqa: S102
        if is_engine:
            return ns[fl.Op.pascal_case(name)]().engine
        return ns["create"]()
    return eval(code.strip(), ns)  # noqa: S307


METHOD = {"variable": None, "term": "term", "defuzzifier": "defuzzifier", "norm": "norm", "rule_block": "rule_block",
          "activation": "activation", "rule": "rule"}


def export(obj, form: str, formatted: bool, kind: str | None = None) -> str:
    if form == "repr":
        return repr(obj)
    ex = fl.PythonExporter(formatted=formatted, encapsulated=(form == "encapsulated"))
    if kind is not None:
        # the exporter's dedicated entry point for this kind of component (engine(), input_variable(), term() ...)
        name = METHOD.get(kind) or ("input_variable" if isinstance(obj, fl.InputVariable) else "output_variable")
        return getattr(ex, name)(obj)
    return ex.to_string(obj)


def fll_of(obj) -> str:
    return str(obj)


def assign_function_variables(e, spec) -> None:
    """The substitution-variables maps are (re-)assigned on the assembled engine, as a program that fills them in later
    does (the constructor argument and the attribute are the same public field)."""
    for vs, vo in zip(spec["inputs"] + spec["outputs"], e.input_variables + e.output_variables):
        for ts, to in zip(vs["terms"], vo.terms):
            if ts["cls"] == "Function" and ts.get("vars"):
                to.variables = dict(ts["vars"])


def precondition(spec, d) -> bool:
    atol2 = 2 * fl.settings.atol
    for v in spec["inputs"] + spec["outputs"]:
        for t in v["terms"]:
            h = t.get("h", 1.0)
            if h != 1.0 and abs(h - 1.0) <= atol2:
                return False
    for b in spec["blocks"]:
        for r in b["rules"]:
            w = r.get("weight")
            if w is not None:
                if w != 1.0 and abs(w - 1.0) <= atol2:
                    return False
                if float(f"{w:.{d}f}") != w:
                    return False
    return True


def components(e):
    out = []
    for v in e.input_variables + e.output_variables:
        out.append(("variable", v))
        for t in v.terms:
            out.append(("term", t))
    for v in e.output_variables:
        if v.defuzzifier is not None:
            out.append(("defuzzifier", v.defuzzifier))
        if v.aggregation is not None:
            out.append(("norm", v.aggregation))
    for b in e.rule_blocks:
        out.append(("rule_block", b))
        for k in ("conjunction", "disjunction", "implication"):
            if getattr(b, k) is not None:
                out.append(("norm", getattr(b, k)))
        if b.activation is not None:
            out.append(("activation", b.activation))
        for r in b.rules:
            out.append(("rule", r))
    return out


def check_engine(ctx, case) -> None:
    spec, d, alias, form, formatted, rows = (case["spec"], int(case["d"]), case["alias"], case["form"],
                                             case["formatted"], case["rows"])
    ctx.ev()
    ctx.cls("alias:" + repr(alias))
    ctx.cls("form:" + form + ("+black" if formatted and form != "repr" else ""))
    with fl.settings.context(alias=alias, decimals=d):
        mk = build.mk_engine_incremental if case.get("incremental") else build.mk_engine
        e = mk(spec, decimals=d, explicit_weights=True)
        assign_function_variables(e, spec)
        code = export(e, form, formatted)
        try:
            e2 = rebuild(code, form, e.name, True)
        except Exception as ex:  # noqa: BLE001
            ctx.fail(f"generated-code-fails-{type(ex).__name__}", case,
                     {"exception": f"{type(ex).__name__}: {ex}"[:300], "code": code[:1200]})
        ctx.check(isinstance(e2, fl.Engine), "rebuilt-not-an-engine", case, {"type": type(e2).__name__})
        r1, r2 = repr(e), repr(e2)
        if r1 != r2:
            i = next((k for k in range(min(len(r1), len(r2))) if r1[k] != r2[k]), min(len(r1), len(r2)))
            ctx.fail("repr-differs", case, {"original": r1[max(0, i - 80):i + 80], "rebuilt": r2[max(0, i - 80):i + 80]})
        f1, f2 = fll_of(e), fll_of(e2)
        if f1 != f2:
            ctx.fail("fll-differs", case, {"first": [(a, b) for a, b in zip(f1.split("\n"), f2.split("\n"))
                                                     if a != b][:3]})
        if precondition(spec, d):
            e1 = mk(spec, decimals=d, explicit_weights=True)
            assign_function_variables(e1, spec)
            o1 = c14_fll.process_rows(e1, rows)
            o2 = c14_fll.process_rows(e2, rows)
            ctx.check("raise:RuntimeError" not in o1 and "raise:RuntimeError" not in o2, "engine-not-processable", case,
                      {"original": o1, "rebuilt": o2})
            ctx.check(c14_fll.same_outputs(o1, o2), "outputs-differ", case, {"original": o1, "rebuilt": o2})
            ctx.cls("outputs_compared")
        # each component on its own (repr / exporter forms; a sample to bound the cost)
        comps = components(e)
        comps += [("variable", fl.InputVariable(name="Bare", minimum=0.0, maximum=1.0)),
                  ("variable", fl.OutputVariable(name="BareOut", minimum=0.0, maximum=1.0)),
                  ("rule_block", fl.RuleBlock(name="empty", activation=fl.General()))]
        picks = case.get("component_picks") or []
        chosen = comps if len(comps) <= 6 else [comps[p % len(comps)] for p in picks[:6]] + comps[-3:][: 1 + picks[0] % 3]
        for kind, c in chosen:
            cform = form
            ccode = export(c, cform, formatted and cform != "repr", kind if case.get("dedicated_methods") else None)
            try:
                c2 = rebuild(ccode, cform, "", False)
            except Exception as ex:  # noqa: BLE001
                ctx.fail(f"component-code-fails-{kind}-{type(ex).__name__}", case,
                         {"exception": f"{type(ex).__name__}: {ex}"[:300], "code": ccode[:800]})
            ctx.check(type(c2) is type(c), "component-type-differs", case, {"kind": kind, "got": type(c2).__name__})
            if repr(c) != repr(c2):
                ctx.fail("component-repr-differs-" + kind, case, {"original": repr(c)[:400], "rebuilt": repr(c2)[:400]})
            if kind != "rule_block" and str(c) != str(c2):
                ctx.fail("component-fll-differs-" + kind, case, {"original": str(c)[:400], "rebuilt": str(c2)[:400]})
            if kind == "rule_block":
                ctx.check([r.text for r in c.rules] == [r.text for r in c2.rules] and str(c) == str(c2),
                          "component-fll-differs-rule_block", case, {"original": str(c)[:400], "rebuilt": str(c2)[:400]})
            ctx.cls("component:" + kind)
    nrules = sum(len(b["rules"]) for b in spec["blocks"])
    special = any(not v.get("enabled", True) or v.get("description") for v in
                  spec["inputs"] + spec["outputs"] + spec["blocks"]) or \
        any(t.get("h", 1.0) != 1.0 or t.get("vars") for v in spec["inputs"] + spec["outputs"] for t in v["terms"]) or \
        any(v["defuzzifier"] and (v["defuzzifier"].get("resolution", 1000) != 1000 or
                                  v["defuzzifier"].get("type", "Automatic") != "Automatic") for v in spec["outputs"])
    if nrules >= 1 and special:
        ctx.nt([spec, alias, form], {"alias": alias, "form": form, "formatted": formatted, "code": code[:1500]})


@st.composite
def cases(draw):
    rg, dlo = draw(st.sampled_from([("half", 1), ("dec", 3), ("dy", 6), ("free", 3), ("free", 3), ("free", 0), ("free", 0)]))
    d = draw(st.integers(dlo, 9)) if dlo else draw(st.sampled_from([0, 1, 1, 2]))
    spec = c14_fll.fll_spec(draw, rg)
    if rg == "free" and d < 3:
        # few decimals: rule weights must stay representable (rules are exported as text); heights / parameters are
        # arbitrary doubles, incl. heights that print as 1 at this precision but are far from 1 (0.96 at 1 decimal)
        for b in spec["blocks"]:
            for r in b["rules"]:
                r["weight"] = draw(st.sampled_from([None, None, 0.0, 1.0] + ([0.5] if d >= 1 else [])))
        ts = [t for v in spec["inputs"] + spec["outputs"] for t in v["terms"]
              if t["cls"] not in ("Constant", "Linear", "Function")]
        for t in ts:
            if draw(st.booleans()):
                t["h"] = draw(st.sampled_from([0.96, 0.951, 0.97, 0.6, 0.55, 0.9949]))
    for v in spec["inputs"] + spec["outputs"] + spec["blocks"]:
        v["description"] = draw(st.sampled_from(DESCR))
    spec["description"] = draw(st.sampled_from(DESCR))
    # Function terms with their own variables map (the Python form carries it, unlike FLL)
    inames = [v["name"] for v in spec["inputs"]]
    for v in spec["outputs"]:
        for t in v["terms"]:
            if t["cls"] == "Function" and draw(st.booleans()):
                k1 = draw(st.floats(-10, 10))
                k2 = draw(st.one_of(st.floats(-10, 10), st.sampled_from([math.inf, 0.0, 1e-300, -0.0, -0.0])))
                extra = draw(st.lists(st.floats(-5, 5), min_size=0, max_size=6))  # up to 8 substitution variables
                tail = " + k2" if draw(st.booleans()) else " + 1 / k2"  # 1 / -0.0 = -inf: the sign of a zero matters
                t["formula"] = f"k1 * {draw(st.sampled_from(inames))}" + tail + "".join(
                    f" + e{i + 1}" for i in range(len(extra)))
                t["vars"] = {"k1": k1, "k2": k2, **{f"e{i + 1}": v for i, v in enumerate(extra)}}
    for v in spec["outputs"]:
        if draw(st.integers(0, 9)) == 0:
            v["default"] = -0.0  # exactly negative zero
    rows = [draw(gen.input_row(spec)) for _ in range(draw(st.integers(1, 3)))]
    form = draw(st.sampled_from(["repr", "repr", "plain", "encapsulated", "encapsulated"]))
    return {"spec": spec, "d": d, "alias": draw(st.sampled_from(ALIASES)), "form": form,
            "formatted": form != "repr" and draw(st.integers(0, 4)) == 0, "rows": rows,
            "component_picks": draw(st.lists(st.integers(0, 200), min_size=6, max_size=6)),
            "dedicated_methods": draw(st.booleans()), "incremental": draw(st.booleans())}


def shard(ctx, shard, nshards, ex):
    ctx.hyp("engine", cases(), check_engine, ex)


def run(ctx) -> None:
    import sys

    from vlib import runner

    mod = sys.modules[__name__]
    try:
        import black  # noqa: F401
    except ModuleNotFoundError:
        ctx.note("black is not installed: formatted variants fall back to unformatted code (documented behaviour)")
    if ctx.tier == "quick":
        runner.run_sharded(ctx, mod, "shard", 8, ex=250)
    else:
        runner.run_sharded(ctx, mod, "shard", 16, ex=1200)


def replay(ctx, prop, case) -> None:
    ctx.direct(prop, check_engine, [case])
