"""C11 — Tsukamoto values invert the monotonic membership functions.

Oracle: round trip membership(tsukamoto(y)) == y; monotonicity of z(y); array == elementwise; documented
inverse formulas (vlib.refmath.tsukamoto); refusal for non-monotonic terms.
"""

from __future__ import annotations

import math

import numpy as np
from hypothesis import strategies as st

import fuzzylite as fl
from vlib import build, gen, refmath

RULE = ("cases are (monotonic term spec, list of y, presentation); a point is non-trivial when 0 < y < h strictly "
        "(all generated y are) and the term is non-degenerate (start != end, slope != 0); distinct by (class, "
        "parameters, height, y). y drawn from: uniform (0,h), h*2^-k (k<=40), h*(1-2^-k), h/2 and its neighbours; "
        "terms: Arc, Concave, Ramp, Sigmoid in both directions, SShape, ZShape, on the three numeric regimes, "
        "heights in (0,1]; all other registered term classes for the refusal clause")
ASSUMPTIONS = [
    "round-trip tolerance: h*(1e-9+64*eps*kappa)+1e-12 (Arc: h*(1e-9+4*sqrt(eps*(1+kappa))) because its closed form "
    "takes the root of a cancelling difference)",
    "monotonicity of z(y) is asserted up to 16 ulp of |z| (the two branches of S/Z shapes meet at h/2 within rounding)",
    "y is kept within [h*2^-40, h*(1-2^-40)]: for smaller y the exact inverse of Concave/Sigmoid exceeds the double "
    "range (overflow to inf is a representation limit, not what the statement is about)",
    "refusal = RuntimeError from Term.tsukamoto and is_monotonic() is False",
]

MONO = list(refmath.MONOTONIC)


def check_roundtrip(ctx, case) -> None:
    spec, ys, mode = case["term"], [float(v) for v in case["ys"]], case.get("mode", "1d")
    cls, h = spec["cls"], float(spec.get("h", 1.0))
    t = build.mk_term(spec)
    if case.get("prev") is not None:
        # the same object first holds another parameterisation and is used, then its public parameter attributes are
        # assigned: the inverse refers to the term's current parameters
        t = build.mk_term(case["prev"])
        hp = float(case["prev"].get("h", 1.0))
        t.tsukamoto(hp / 2)
        t.tsukamoto(np.array([hp / 4, hp / 2]))
        t.membership(0.0)
        attrs = [k for k in vars(t) if k not in ("name", "height") and not k.startswith("_")]
        if len(attrs) == len(spec["p"]):
            for k, v in zip(attrs, spec["p"]):
                setattr(t, k, float(v))
            t.height = h
            ctx.cls("reparameterised_in_place")
        else:
            t = build.mk_term(spec)
    ctx.cls("class:" + cls + ("+" if refmath.direction(spec) > 0 else "-"))
    ctx.check(t.is_monotonic() is True, "is_monotonic", {"term": spec, "ys": []})
    zs = []
    for y in ys:
        sub = {"term": spec, "ys": [y], "mode": "scalar"}
        z = t.tsukamoto(y)
        ctx.check(np.shape(z) == (), "scalar-shape", sub, {"shape": list(np.shape(z))})
        z = float(z)
        zs.append(z)
        ctx.ev()
        ctx.check(math.isfinite(z), "finite", sub, {"z": z})
        back = float(t.membership(z))
        if cls == "Arc":
            tl = h * (1e-9 + 4 * math.sqrt(refmath.EPS * (1 + refmath.kappa(spec, z)))) + 1e-12
        else:
            tl = refmath.tol(spec, z)
        ctx.check(abs(back - y) <= tl, "roundtrip", sub, {"z": z, "mu(z)": back, "y": y, "tol": tl})
        zr = refmath.tsukamoto(spec, y)
        M = max([abs(v) for v in spec["p"]] + [abs(z)])
        w = abs(spec["p"][1] - spec["p"][0]) if cls != "Sigmoid" else 1 / abs(spec["p"][1])
        tz = 1e-9 * (M + w) + (4 * math.sqrt(refmath.EPS) * w if cls == "Arc" else 0.0)
        ctx.check(abs(z - zr) <= tz, "documented-inverse", sub, {"z": z, "ref": zr, "tol": tz})
        ctx.nt([cls, spec["p"], h, y], {"term": spec, "y": y, "z": z, "mu(z)": back})
    d = refmath.direction(spec)
    pts = sorted(zip(ys, zs))
    for (ya, za), (yb, zb) in zip(pts, pts[1:]):
        slack = 16 * math.ulp(max(abs(za), abs(zb), 1e-300))
        ok = (zb >= za - slack) if d > 0 else (zb <= za + slack)
        ctx.check(ok, "z-monotone", {"term": spec, "ys": [ya, yb], "mode": "scalar"}, {"z": [za, zb], "dir": d})
    if mode != "scalar" and ys:
        arr = np.array(ys, dtype=float)
        if mode == "2d" and len(ys) % 2 == 0:
            arr = arr.reshape(2, len(ys) // 2)
        keep = arr.copy()
        got = t.tsukamoto(arr)
        ctx.check(bool(np.array_equal(arr, keep, equal_nan=True)), "argument-mutated", case,
                  {"before": keep.reshape(-1).tolist()[:6], "after": arr.reshape(-1).tolist()[:6]})
        ctx.check(np.shape(got) == arr.shape, "array-shape", case, {"got": list(np.shape(got))})
        for i, z in enumerate(np.asarray(got, dtype=float).reshape(-1)):
            ok = z == zs[i] or abs(z - zs[i]) <= 2 * math.ulp(max(abs(z), abs(zs[i])))
            ctx.check(ok, "array-vs-scalar", {"term": spec, "ys": [ys[i], ys[i]], "mode": "1d"},
                      {"array": float(z), "scalar": zs[i]})


def check_refusal(ctx, case) -> None:
    spec = case["term"]
    if spec["cls"] == "Linear":
        t = fl.Linear("t", [1.0], None)
    elif spec["cls"] == "Function":
        t = fl.Function("t", "x + 1")
    else:
        t = build.mk_term(spec)
    ctx.ev()
    ctx.check(t.is_monotonic() is False, "nonmonotonic-is_monotonic", case)
    for y in case["ys"]:
        try:
            z = t.tsukamoto(y)
        except RuntimeError:
            continue
        ctx.fail("nonmonotonic-not-refused", case, {"returned": z})
    ctx.nt(["refusal", spec["cls"], spec.get("p"), case["ys"]])


@st.composite
def y_values(draw, h):
    k = draw(st.integers(0, 5))
    if k == 0:
        y = h * 2.0 ** -draw(st.integers(1, 40))
    elif k == 1:
        y = h * (1 - 2.0 ** -draw(st.integers(1, 40)))
    elif k == 2:
        y = h / 2
        j = draw(st.integers(-2, 2))
        for _ in range(abs(j)):
            y = math.nextafter(y, math.inf if j > 0 else -math.inf)
    else:
        y = draw(st.floats(2.0 ** -40, 1 - 2.0 ** -40)) * h
    if not (0 < y < h):
        y = h / 2
    return y


@st.composite
def rt_cases(draw):
    spec = draw(gen.shape_term(cls=draw(st.sampled_from(MONO))))
    if draw(st.integers(0, 5)) == 0:
        # heights within (and just outside) the library's comparison tolerance of 1, and tiny heights
        spec["h"] = draw(st.sampled_from([0.9995, 0.9991, 0.999, 0.9999, 0.998, 0.99, 1 - 2.0 ** -20, 0.001, 0.0005]))
    n = draw(st.sampled_from([1, 2, 4, 6, 10]))
    ys = draw(st.lists(y_values(spec["h"]), min_size=n, max_size=n))
    prev = None
    if draw(st.integers(0, 3)) == 0:
        prev = dict(draw(gen.shape_term(cls=spec["cls"])), name=spec.get("name", "t"))
    return {"term": spec, "ys": ys, "mode": draw(st.sampled_from(["scalar", "1d", "2d"])), "prev": prev}


@st.composite
def refusal_cases(draw):
    others = [c for c in refmath.SHAPES if c not in MONO] + ["Constant", "Linear", "Function"]
    cls = draw(st.sampled_from(others))
    spec = {"cls": cls} if cls in ("Linear", "Function") else draw(gen.shape_term(cls=cls))
    if cls == "Discrete" and draw(st.booleans()):
        # strictly increasing / decreasing membership values: still not one of the six monotonic term classes
        n = len(spec["p"]) // 2
        ysm = [(i + 1) / (n + 1) for i in range(n)]
        if draw(st.booleans()):
            ysm.reverse()
        spec["p"] = [v for pair in zip(spec["p"][0::2], ysm) for v in pair]
    ys = draw(st.lists(st.floats(0.001, 0.999), min_size=1, max_size=3))
    return {"term": spec, "ys": ys}


def shard(ctx, shard, nshards, ex):
    ctx.hyp("roundtrip", rt_cases(), check_roundtrip, ex)
    ctx.hyp("refusal", refusal_cases(), check_refusal, max(50, ex // 10))


def run(ctx) -> None:
    import sys

    from vlib import runner

    mod = sys.modules[__name__]
    if ctx.tier == "quick":
        runner.run_sharded(ctx, mod, "shard", 4, ex=2500)
    else:
        runner.run_sharded(ctx, mod, "shard", 16, ex=12000)


def replay(ctx, prop, case) -> None:
    fn = {"roundtrip": check_roundtrip, "refusal": check_refusal}.get(prop)
    if fn:
        ctx.direct(prop, fn, [case])
