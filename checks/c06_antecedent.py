"""C06 — Rule antecedents mean what the rule grammar says.

Oracle: the generated AST evaluated by vlib.refengine (documented grammar: hedges nearest-the-term first, `any`=1,
disabled variable=0, output variable = aggregated activation so far, `and` tighter than `or`, left-associative,
block operators); structural oracle: Antecedent.postfix() == post-order print of the AST.
"""

from __future__ import annotations

import math

import numpy as np
from hypothesis import strategies as st

import fuzzylite as fl
from vlib import build, gen, implmu, refengine, refmath

RULE = ("cases are (small engine spec with one rule whose antecedent is a generated expression tree, operator pair, "
        "weight, pre-seeded output activations, input rows scalar or batch); non-trivial when the antecedent has >= 2 "
        "propositions and (mixes and/or, or has a right-nested sub-expression, or >= 1 hedge) and some row's degree "
        "lies strictly inside (0,1); distinct by (printed rule text, operators, rows)")
ASSUMPTIONS = [
    "leaf memberships are taken from fresh term objects evaluated pointwise (membership correctness is C03's subject); "
    "everything above the leaves (variable/term lookup, hedge order, any, disabled variables, output-variable "
    "propositions, precedence, associativity, parentheses, operators, weight) is computed by the reference",
    "degrees compared within 1e-12 absolute + 4 ulp; a mismatch with a discontinuous operator decision (Drastic*/"
    "Nilpotent*) within 1e-9 of its branch point on a computed operand is counted as fragile, not reported",
    "variable/term names come from pools disjoint from keywords, hedge names and Function element names (a term "
    "called `max` is a function token for the parser by design)",
]


def build_case(case):
    spec = case["spec"]
    eng = build.mk_engine(spec)
    for vi, v in enumerate(spec["inputs"]):
        for ti, t in enumerate(v["terms"]):
            if t.get("shared_from") is not None:
                # one Term object registered in two input variables (terms hold no per-variable state): each
                # proposition still reads the membership of *its* variable's value
                sv, st_ = t["shared_from"]
                eng.input_variables[vi].terms[ti] = eng.input_variables[sv].terms[st_]
                for rb in eng.rule_blocks:
                    rb.reload_rules(eng)
    out = eng.output_variables[0]
    ospec = spec["outputs"][0]
    imp = build.mk_norm("Minimum", "t")
    for tn, d in ospec.get("seed", []):
        out.fuzzy.terms.append(fl.Activated(out.term(tn), d, imp))
    return eng


def check_antecedent(ctx, case) -> None:
    spec, rows, mode = case["spec"], case["rows"], case["mode"]
    block = spec["blocks"][0]
    r = block["rules"][0]
    text = gen.rule_text(r)
    eng = build_case(case)
    rule = eng.rule_blocks[0].rules[0]
    if case.get("route") == "retext":
        # the same Rule object first carries another (weighted) text, then this one: what counts is the current text
        v0 = spec["inputs"][0]
        rule.text = f"if {v0['name']} is {v0['terms'][0]['name']} then Y is {spec['outputs'][0]['terms'][0]['name']} with 0.500"
        rule.load(eng)
        rule.text = text
        rule.load(eng)
        ctx.cls("route:retext")
    via = case.get("via")
    seeded_terms = list(eng.output_variables[0].fuzzy.terms)
    if via and mode == "scalar":
        eng.rule_blocks[0].activation = build.mk_activation(via)
        ctx.cls("via_activation:" + via["cls"])
    ctx.ev()
    ctx.cls(f"mode:{mode}")
    ctx.check(rule.is_loaded(), "rule-not-loaded", case, {"text": text})
    # structural oracle
    pf = rule.antecedent.postfix()
    want_pf = gen.ante_postfix(r["ante"])
    ctx.check(pf == want_pf, "postfix-structure", case, {"text": text, "got": pf, "want": want_pf})
    conj, disj = eng.rule_blocks[0].conjunction, eng.rule_blocks[0].disjunction
    ref = refengine.Ref(spec, mu=implmu.impl_mu)
    seed = {spec["outputs"][0]["name"]: [(tn, d) for tn, d in spec["outputs"][0].get("seed", [])]}
    # impl
    if mode == "scalar":
        got = []
        for row in rows:
            for v, x in zip(eng.input_variables, row):
                v.value = float(x)
            if via:
                # through the rule block's activation method (every method computes each loaded rule's degree with the
                # block's conjunction and disjunction)
                eng.output_variables[0].fuzzy.terms[:] = seeded_terms
                eng.rule_blocks[0].activate()
                d = rule.activation_degree
            else:
                d = rule.activate_with(conj, disj)
            ctx.check(np.size(d) == 1, "scalar-degree-shape", case, {"shape": list(np.shape(d))})
            got.append(float(np.asarray(d).reshape(-1)[0]))
            stored = float(np.asarray(rule.activation_degree).reshape(-1)[0])
            ctx.check(stored == got[-1] or (math.isnan(stored) and math.isnan(got[-1])), "stored-degree", case,
                      {"returned": got[-1], "stored": stored})
    else:
        for j, v in enumerate(eng.input_variables):
            v.value = np.array([float(row[j]) for row in rows])
        d = np.asarray(rule.activate_with(conj, disj), dtype=float)
        ctx.check(d.size in (1, len(rows)), "batch-degree-shape", case, {"shape": list(d.shape)})
        got = [float(x) for x in np.broadcast_to(d.reshape(-1), (len(rows),))] if d.size == 1 else \
            [float(x) for x in d.reshape(-1)]
    interesting = False
    for i, row in enumerate(rows):
        tr = refengine.Trace()
        values = {}
        for v, x in zip(spec["inputs"], row):
            values[v["name"]] = refengine.clip(float(x), v["min"], v["max"]) if v.get("lock_range") else float(x)
        want = ref.rule_degree(r, block, values, seed, tr)
        g = got[i]
        ok = (math.isnan(g) and math.isnan(want)) or g == want or \
            abs(g - want) <= 1e-12 + 4 * math.ulp(max(abs(g), abs(want)))
        if not ok and tr.margin < 1e-9:
            ctx.cls("fragile")
            continue
        sub = dict(case, rows=[row], mode="scalar" if mode == "scalar" else "batch")
        ctx.check(ok, "activation-degree", sub, {"text": text, "got": g, "want": want, "row": row})
        if 0.0 < want < 1.0:
            interesting = True
    props = gen.ante_props(r["ante"])
    ops = gen.ante_ops(r["ante"])
    right_nested = _right_nested(r["ante"])
    ctx.cls(f"props:{min(len(props), 6)}")
    ctx.cls("pair:" + block["conjunction"][:4] + "/" + block["disjunction"][:4])
    if len(props) >= 2 and (len(set(ops)) == 2 or right_nested or any(p["hedges"] for p in props)) and interesting:
        ctx.nt([text, block["conjunction"], block["disjunction"], rows],
               {"rule": text, "conjunction": block["conjunction"], "disjunction": block["disjunction"], "rows": rows,
                "degrees": got})
        if right_nested:
            ctx.cls("right_nested")
        if len(set(ops)) == 2:
            ctx.cls("mixed_and_or")


def _right_nested(a):
    if "op" not in a:
        return False
    return "op" in a["r"] or _right_nested(a["l"]) or _right_nested(a["r"])


PAIRS = [(t, s) for t in refmath.TNORMS for s in refmath.SNORMS]
FAV = [("BoundedDifference", "DrasticSum"), ("EinsteinProduct", "BoundedSum"), ("AlgebraicProduct", "AlgebraicSum"),
       ("HamacherProduct", "EinsteinSum"), ("BoundedDifference", "NormalizedSum"), ("NilpotentMinimum", "UnboundedSum")]


@st.composite
def cases(draw):
    rg = draw(gen.regime())
    ni = draw(st.integers(1, 3))
    inames = draw(st.permutations(gen.VAR_NAMES))[:ni]
    # favour smooth overlapping terms so degrees land strictly inside (0,1)
    inputs = [draw(gen.input_variable(nm, rg, nterms=(1, 3))) for nm in inames]
    out = draw(gen.output_variable("Y", rg, "mamdani", ni, nterms=(1, 3), flags=False))
    out["enabled"] = draw(st.sampled_from([True, True, True, False]))
    out["aggregation"] = draw(st.sampled_from(refmath.SNORMS + [None]))
    tn = [t["name"] for t in out["terms"]]
    out["seed"] = draw(st.lists(st.tuples(st.sampled_from(tn), gen.unit_degree()).map(list), max_size=4))
    if len(inputs) >= 2 and draw(st.integers(0, 3)) == 0:
        t0 = inputs[0]["terms"][0]
        if all(t["name"] != t0["name"] for t in inputs[1]["terms"]):
            inputs[1]["terms"].append(dict(t0, shared_from=[0, 0]))
    ivars = [(v["name"], [t["name"] for t in v["terms"]]) for v in inputs]
    ovars = [("Y", tn)]
    avars = ivars + (ovars if draw(st.integers(0, 2)) == 0 else [])
    ante = draw(gen.antecedent(avars, depth=4))
    w = draw(st.one_of(st.none(), st.integers(0, 1000).map(lambda k: k / 1000)))
    conj, disj = draw(st.one_of(st.sampled_from(PAIRS), st.sampled_from(FAV)))
    rule = {"ante": ante, "cons": [{"var": "Y", "hedges": [], "term": tn[0]}], "weight": w, "enabled": True,
            "tight": draw(st.booleans())}
    block = {"name": "rb", "enabled": True, "conjunction": conj, "disjunction": disj, "implication": "Minimum",
             "activation": {"cls": "General"}, "rules": [rule]}
    spec = {"name": "E", "inputs": inputs, "outputs": [out], "blocks": [block], "rg": rg}
    n = draw(st.sampled_from([1, 2, 3, 5]))
    rows = [draw(gen.input_row(spec)) for _ in range(n)]
    via = draw(st.sampled_from([None, None, None, {"cls": "General"}, {"cls": "First", "rules": 1, "threshold": 0.0},
                                {"cls": "Last", "rules": 1, "threshold": 0.0}, {"cls": "Highest", "rules": 1},
                                {"cls": "Lowest", "rules": 1}, {"cls": "Threshold", "comparator": ">=", "threshold": 0.0}]))
    return {"spec": spec, "rows": rows, "mode": draw(st.sampled_from(["scalar", "scalar", "batch"])),
            "route": draw(st.sampled_from([None, None, None, "retext"])), "via": via}


def all_pairs(ctx):
    """Every (conjunction, disjunction) pair is visited at least once on a fixed mixed antecedent."""
    tri = lambda n, a, b, c: {"cls": "Triangle", "p": [a, b, c], "h": 1.0, "name": n}  # noqa: E731
    inputs = [{"name": "A", "enabled": True, "min": 0.0, "max": 1.0, "lock_range": False,
               "terms": [tri("low", -0.5, 0.0, 1.0), tri("high", 0.0, 1.0, 1.5)]},
              {"name": "B", "enabled": True, "min": 0.0, "max": 1.0, "lock_range": False,
               "terms": [tri("low", -0.5, 0.0, 1.0), tri("high", 0.0, 1.0, 1.5)]}]
    out = {"name": "Y", "enabled": True, "min": 0.0, "max": 1.0, "lock_range": False, "lock_previous": False,
           "default": math.nan, "aggregation": "Maximum", "defuzzifier": {"cls": "Centroid", "resolution": 10},
           "terms": [tri("t", 0.0, 0.5, 1.0)], "seed": []}
    P = lambda v, t, h=(): {"var": v, "hedges": list(h), "term": t}  # noqa: E731
    ante = {"op": "or", "l": {"op": "and", "l": P("A", "low"), "r": P("B", "high", ["very"])},
            "r": {"op": "and", "l": P("A", "high", ["not"]), "r": {"op": "or", "l": P("B", "low"), "r": P("A", "low")}}}
    out_cases = []
    for conj, disj in PAIRS:
        rule = {"ante": ante, "cons": [{"var": "Y", "hedges": [], "term": "t"}], "weight": 0.75, "enabled": True}
        block = {"name": "rb", "enabled": True, "conjunction": conj, "disjunction": disj, "implication": "Minimum",
                 "activation": {"cls": "General"}, "rules": [rule]}
        spec = {"name": "E", "inputs": inputs, "outputs": [out], "blocks": [block]}
        out_cases.append({"spec": spec, "rows": [[0.25, 0.625], [0.5, 0.5], [0.875, 0.125]], "mode": "scalar"})
    ctx.direct("antecedent", check_antecedent, out_cases)


def shard(ctx, shard, nshards, ex):
    ctx.hyp("antecedent", cases(), check_antecedent, ex)


def run(ctx) -> None:
    import sys

    from vlib import runner

    all_pairs(ctx)
    ctx.exhaustive_parts.append("all 63 (conjunction, disjunction) pairs on one fixed mixed antecedent x 3 rows")
    mod = sys.modules[__name__]
    if ctx.tier == "quick":
        runner.run_sharded(ctx, mod, "shard", 8, ex=600)
    else:
        runner.run_sharded(ctx, mod, "shard", 16, ex=10000)


def replay(ctx, prop, case) -> None:
    if prop == "antecedent":
        ctx.direct(prop, check_antecedent, [case])
