"""C08 — Activation methods trigger exactly the rules their definition selects.

Oracle: reference selection per method written from the statement (vlib.refengine.Ref.activate); degree vectors are
realised exactly through Ramp(0,1) input terms (mu(x) = x on [0,1]).
"""

from __future__ import annotations

import itertools
import math

import numpy as np
from hypothesis import strategies as st

import fuzzylite as fl  # noqa: F401
from vlib import build, refengine

RULE = ("cases are (rule block of n rules `if Xi is t then Y is yi`, degree vector realised exactly via Ramp(0,1), "
        "activation method with parameters, enabled/loaded flags, optional weights); non-trivial when >= 2 rules have "
        "positive degree and (the selection is a proper non-empty subset of them, or two positive degrees tie, or a "
        "threshold equals a degree); distinct by (method+parameters, degree vector, flags, weights). Exhaustive part: "
        "all vectors over {0,1/4,1/2,3/4,1}^n (n<=4 quick, n<=5 thorough) x all methods x n_rules 0..n+1 x thresholds "
        "{0,1/4,3/8,1/2,1} x 6 comparators")
ASSUMPTIONS = [
    "a *disabled* rule selected by First/Last/Highest/Lowest: the statement does not say whether it occupies one of the "
    "n slots; both readings are accepted, only 'contributes nothing and is not marked triggered' is asserted for it",
    "contributions are compared as multisets of (term, degree) (the statement does not fix their order)",
    "Proportional: degrees compared within 4 ulp (division by the sum), everything else exactly",
]
LEVEL = "exploration"

TH = [0.0, 0.25, 0.375, 0.5, 1.0]
CMP = ["<", "<=", "==", "!=", ">=", ">"]


def configs(n):
    out = [{"cls": "General"}, {"cls": "Proportional"}]
    for k in range(0, n + 2):
        for t in TH:
            out.append({"cls": "First", "rules": k, "threshold": t})
            out.append({"cls": "Last", "rules": k, "threshold": t})
        out.append({"cls": "Highest", "rules": k})
        out.append({"cls": "Lowest", "rules": k})
    for c in CMP:
        for t in TH:
            out.append({"cls": "Threshold", "comparator": c, "threshold": t})
    return out


def mk_spec(n, act, inputs_of=None, enabled=None, weights=None):
    inputs_of = inputs_of or list(range(n))
    ni = max(inputs_of) + 1
    ramp = {"cls": "Ramp", "p": [0.0, 1.0], "h": 1.0, "name": "t"}
    inputs = [{"name": f"X{i + 1}", "enabled": True, "min": 0.0, "max": 1.0, "lock_range": False, "terms": [ramp]}
              for i in range(ni)]
    out = {"name": "Y", "enabled": True, "min": 0.0, "max": 1.0, "lock_range": False, "lock_previous": False,
           "default": math.nan, "aggregation": "Maximum", "defuzzifier": {"cls": "Centroid", "resolution": 10},
           "terms": [{"cls": "Triangle", "p": [0.0, 0.5, 1.0], "h": 1.0, "name": f"y{i + 1}"} for i in range(n)]}
    rules = []
    for i in range(n):
        rules.append({"ante": {"var": f"X{inputs_of[i] + 1}", "hedges": [], "term": "t"},
                      "cons": [{"var": "Y", "hedges": [], "term": f"y{i + 1}"}],
                      "weight": None if not weights or weights[i] is None else weights[i],
                      "enabled": True if not enabled else enabled[i]})
    block = {"name": "rb", "enabled": True, "conjunction": "Minimum", "disjunction": "Maximum",
             "implication": "Minimum", "activation": act, "rules": rules}
    return {"name": "E", "inputs": inputs, "outputs": [out], "blocks": [block]}


def close(a, b, ulps):
    if math.isnan(a) or math.isnan(b):
        return math.isnan(a) and math.isnan(b)
    return a == b or abs(a - b) <= ulps * math.ulp(max(abs(a), abs(b)))


def compare(ctx, case, eng, spec, vec, loaded):
    """Activate the (already built) block with the degree vector and compare with the reference."""
    rb = eng.rule_blocks[0]
    Y = eng.output_variables[0]
    for v, x in zip(eng.input_variables, vec):
        v.value = float(x)
    Y.fuzzy.clear()
    rb.activate()
    act = spec["blocks"][0]["activation"]
    ulps = 4 if act["cls"] == "Proportional" else 0
    got_deg = [float(np.asarray(r.activation_degree).reshape(-1)[0]) for r in rb.rules]
    got_trig = [bool(np.asarray(r.triggered).reshape(-1)[0]) for r in rb.rules]
    got_contrib = sorted((a.term.name, float(np.asarray(a.degree).reshape(-1)[0])) for a in Y.fuzzy.terms)
    outcomes = []
    for reading in (True, False):
        ref = refengine.Ref(spec)
        ref.disabled_counts = reading
        values = {v["name"]: float(x) for v, x in zip(spec["inputs"], vec)}
        fuzzy = {"Y": []}
        tr = refengine.Trace()
        b = dict(spec["blocks"][0])
        b["rules"] = [dict(r, loaded=loaded[i]) for i, r in enumerate(b["rules"])]
        degs, trig = ref.activate(b, values, fuzzy, tr)
        want_deg = [0.0 if d is None else d for d in degs]
        want_contrib = sorted((t, d) for (t, d, _i) in fuzzy["Y"])
        ok = all(close(g, w, ulps) for g, w in zip(got_deg, want_deg)) and got_trig == trig and \
            len(got_contrib) == len(want_contrib) and \
            all(a[0] == b_[0] and close(a[1], b_[1], ulps) for a, b_ in zip(got_contrib, want_contrib))
        outcomes.append((ok, want_deg, trig, want_contrib, tr.margin))
        if ok:
            break
        if all(r.get("enabled", True) for r in spec["blocks"][0]["rules"]):
            break  # the two readings coincide
    if not any(o[0] for o in outcomes):
        _ok, want_deg, trig, want_contrib, margin = outcomes[0]
        if margin < 1e-9 and case.get("free"):
            ctx.cls("fragile")
            return None
        label = "degrees" if not all(close(g, w, ulps) for g, w in zip(got_deg, want_deg)) else \
            "triggered-flags" if got_trig != trig else "contributions"
        ctx.fail(f"{label}:{act['cls']}", case, {"activation": act, "vector": vec, "got_degrees": got_deg,
                                                "want_degrees": want_deg, "got_triggered": got_trig,
                                                "want_triggered": trig, "got_contributions": got_contrib,
                                                "want_contributions": want_contrib})
    o = next(o for o in outcomes if o[0])
    return o


def nontrivial(act, want_deg, want_contrib):
    pos = [d for d in want_deg if d > 0.0]
    if len(pos) < 2:
        return False
    proper = 0 < len(want_contrib) < len(pos)
    tie = len(set(pos)) < len(pos)
    thr = "threshold" in act and any(d == act["threshold"] for d in pos)
    return proper or tie or thr


def check_grid(ctx, case) -> None:
    """case = {"n": n, "act": config}: all vectors over {0,.25,.5,.75,1}^n for one configuration (one engine)."""
    n, act = case["n"], case["act"]
    spec = mk_spec(n, act)
    eng = build.mk_engine(spec)
    nt = 0
    sample = None
    for vec in itertools.product([0.0, 0.25, 0.5, 0.75, 1.0], repeat=n):
        sub = {"n": n, "act": act, "vec": list(vec)}
        o = compare(ctx, {"grid1": sub}, eng, spec, list(vec), [True] * n)
        ctx.ev()
        if o and nontrivial(act, o[1], o[3]):
            nt += 1
            sample = sample or {"activation": act, "degrees": list(vec), "contributions": o[3]}
    ctx.nt_bulk(nt, sample)
    ctx.cls("grid_config:" + act["cls"])


def check_one(ctx, case) -> None:
    """case = {"n", "act", "vec", "inputs_of", "enabled", "loaded", "weights", "free": True}"""
    if "grid1" in case:
        g = case["grid1"]
        case = {"n": g["n"], "act": g["act"], "vec": g["vec"]}
    n, act, vec = case["n"], case["act"], case["vec"]
    inputs_of = case.get("inputs_of") or list(range(n))
    loaded = case.get("loaded") or [True] * n
    spec = mk_spec(n, act, inputs_of, case.get("enabled"), case.get("weights"))
    eng = build.mk_engine(spec)
    via = case.get("via") or "constructor"
    if via != "constructor" and act["cls"] not in ("General", "Proportional"):
        # the same configuration reached the way an importer / a program does: default object, then configure() or
        # attribute assignment
        a = fl.settings.factory_manager.activation.construct(act["cls"])
        if via == "configure":
            params = {"First": lambda: f"{act['rules']} {act['threshold']!r}", "Last": lambda: f"{act['rules']} {act['threshold']!r}",
                      "Highest": lambda: f"{act['rules']}", "Lowest": lambda: f"{act['rules']}",
                      "Threshold": lambda: f"{act['comparator']} {act['threshold']!r}"}[act["cls"]]()
            a.configure(params)
        else:
            if "rules" in act:
                a.rules = int(act["rules"])
            if "threshold" in act:
                a.threshold = float(act["threshold"])
            if "comparator" in act:
                a.comparator = fl.Threshold.Comparator(act["comparator"])
        eng.rule_blocks[0].activation = a
        ctx.cls("configured_via:" + via)
    for r, ld in zip(eng.rule_blocks[0].rules, loaded):
        if not ld:
            r.unload()
    o = compare(ctx, case, eng, spec, vec, loaded)
    second = case.get("second")
    if second and o is not None:
        # the same method object and rule objects are used again after public edits: parameters assigned on the method,
        # rules unloaded through their antecedent / consequent (which, unlike Rule.unload, does not deactivate them)
        act2 = dict(act, **second["params"])
        spec2 = mk_spec(n, act2, inputs_of, case.get("enabled"), case.get("weights"))
        a = eng.rule_blocks[0].activation
        if "rules" in act2:
            a.rules = int(act2["rules"])
        if "threshold" in act2:
            a.threshold = float(act2["threshold"])
        if "comparator" in act2:
            a.comparator = fl.Threshold.Comparator(act2["comparator"])
        loaded2 = list(loaded)
        for k in second["unload"]:
            k %= n
            r = eng.rule_blocks[0].rules[k]
            (r.antecedent if second.get("part", 0) == 0 else r.consequent).unload()
            loaded2[k] = False
        o2 = compare(ctx, dict(case, stage="second"), eng, spec2, second["vec"][: len(vec)] + vec[len(second["vec"]):],
                     loaded2)
        ctx.cls("second_activation_on_same_objects")
        _ = o2
    ctx.ev()
    ctx.cls("method:" + act["cls"])
    if any(math.isnan(float(x)) for x in vec):
        ctx.cls("vector_with_nan_degree")
    if o and nontrivial(act, o[1], o[3]):
        ctx.nt([act, vec, inputs_of, case.get("enabled"), loaded, case.get("weights")],
               {"activation": act, "input_values": vec, "rule_inputs": inputs_of, "enabled": case.get("enabled"),
                "loaded": loaded, "weights": case.get("weights"), "want_degrees": o[1], "contributions": o[3]})
    if case.get("enabled") and not all(case["enabled"]):
        ctx.cls("has_disabled_rule")
    if not all(loaded):
        ctx.cls("has_unloaded_rule")


def check_batch_rejected(ctx, case) -> None:
    """Vector inputs (size >= 2): every method but General must raise ValueError and leave no contribution."""
    n, act, rows = case["n"], case["act"], case["rows"]
    spec = mk_spec(n, act)
    eng = build.mk_engine(spec)
    for j, v in enumerate(eng.input_variables):
        v.value = np.array([float(r[j]) for r in rows])
    Y = eng.output_variables[0]
    Y.fuzzy.clear()
    ctx.ev()
    try:
        eng.rule_blocks[0].activate()
    except ValueError:
        ctx.check(len(Y.fuzzy.terms) == 0, "batch-rejected-but-contributed", case,
                  {"contributions": [a.term.name for a in Y.fuzzy.terms]})
        ctx.check(act["cls"] != "General", "general-rejected-batch", case)
        ctx.nt(["batch", act, rows])
        return
    if act["cls"] == "General":
        # per-row agreement with scalar activation
        for i, row in enumerate(rows):
            for a in Y.fuzzy.terms:
                pass
        ctx.check(len(Y.fuzzy.terms) == n, "general-batch-contributions", case, {"got": len(Y.fuzzy.terms)})
        return
    ctx.fail("batch-not-rejected:" + act["cls"], case, {"contributions": len(Y.fuzzy.terms)})


# ---------------------------------------------------------------------------------------------------
def degree():
    return st.one_of(st.sampled_from([0.0, 0.25, 0.5, 0.75, 1.0, 0.375]), st.floats(0, 1),
                     st.integers(0, 8).map(lambda k: k / 8))


@st.composite
def activation(draw, n):
    cls = draw(st.sampled_from(["General", "First", "Last", "Highest", "Lowest", "Threshold", "Proportional"]))
    thr = st.one_of(st.sampled_from(TH), st.floats(0, 1), st.integers(0, 8).map(lambda k: k / 8))
    count = st.one_of(st.integers(0, n + 1), st.integers(0, n + 1), st.sampled_from([10, 12, 25, 100]))  # n > #rules = all
    if cls in ("First", "Last"):
        return {"cls": cls, "rules": draw(count), "threshold": draw(thr)}
    if cls in ("Highest", "Lowest"):
        return {"cls": cls, "rules": draw(count)}
    if cls == "Threshold":
        return {"cls": cls, "comparator": draw(st.sampled_from(CMP)), "threshold": draw(thr)}
    return {"cls": cls}


@st.composite
def one_cases(draw):
    n = draw(st.integers(1, 8))
    act = draw(activation(n))
    shared = draw(st.integers(0, 3)) == 0
    inputs_of = [draw(st.integers(0, max(0, n // 2))) for _ in range(n)] if shared else list(range(n))
    # make input indices contiguous
    order = sorted(set(inputs_of))
    inputs_of = [order.index(i) for i in inputs_of]
    ni = max(inputs_of) + 1
    vec = [draw(degree()) for _ in range(ni)]
    if "threshold" in act and draw(st.booleans()) and vec:
        act["threshold"] = draw(st.sampled_from(vec))
    if draw(st.integers(0, 4)) == 0:  # an input still NaN (as after restart()): its rules have NaN degrees
        for k in draw(st.lists(st.integers(0, ni - 1), min_size=1, max_size=2)):
            vec[k] = math.nan
    enabled = [draw(st.sampled_from([True] * 5 + [False])) for _ in range(n)]
    loaded = [draw(st.sampled_from([True] * 7 + [False])) for _ in range(n)]
    weights = None
    if draw(st.integers(0, 4)) == 0:
        weights = [draw(st.sampled_from([None, 0.5, 0.25, 0.0, 1.0, 0.75])) for _ in range(n)]
    second = None
    if draw(st.integers(0, 2)) == 0:
        params = {}
        if "rules" in act:
            params["rules"] = draw(st.integers(0, n + 1))
        if "threshold" in act and draw(st.booleans()):
            params["threshold"] = draw(st.sampled_from(TH))
        if "comparator" in act:
            params["comparator"] = draw(st.sampled_from(CMP))
        second = {"params": params, "unload": draw(st.lists(st.integers(0, 7), max_size=2)),
                  "part": draw(st.integers(0, 1)), "vec": [draw(degree()) for _ in range(ni)]}
    return {"n": n, "act": act, "vec": vec, "inputs_of": inputs_of, "enabled": enabled, "loaded": loaded, "second": second,
            "weights": weights, "free": True, "via": draw(st.sampled_from(["constructor", "constructor", "configure", "attribute"]))}


@st.composite
def batch_cases(draw):
    n = draw(st.integers(1, 5))
    act = draw(activation(n))
    rows = draw(st.lists(st.lists(degree(), min_size=n, max_size=n), min_size=2, max_size=4))
    return {"n": n, "act": act, "rows": rows}


def shard_grid(ctx, shard, nshards, nmax):
    jobs = [(n, a) for n in range(1, nmax + 1) for a in configs(n)]
    for idx, (n, a) in enumerate(jobs):
        if idx % max(1, nshards) == (shard - 1 if nshards > 1 else 0):
            ctx.direct("grid", check_grid, [{"n": n, "act": a}])


def shard_random(ctx, shard, nshards, ex):
    ctx.hyp("one", one_cases(), check_one, ex)
    ctx.hyp("batch", batch_cases(), check_batch_rejected, max(50, ex // 8))


def run(ctx) -> None:
    import sys

    from vlib import runner

    mod = sys.modules[__name__]
    nmax = 4 if ctx.tier == "quick" else 5
    runner.run_sharded(ctx, mod, "shard_grid", 16, nmax=nmax)
    ctx.exhaustive_parts.append(f"all degree vectors over {{0,1/4,1/2,3/4,1}}^n for n=1..{nmax} x every activation method "
                                f"x n_rules 0..n+1 x thresholds {TH} x 6 comparators (all rules enabled and loaded)")
    if ctx.tier == "quick":
        runner.run_sharded(ctx, mod, "shard_random", 8, ex=400)
    else:
        runner.run_sharded(ctx, mod, "shard_random", 16, ex=8000)


def replay(ctx, prop, case) -> None:
    fn = {"grid": check_grid, "one": check_one, "batch": check_batch_rejected}.get(prop)
    if prop == "grid" and "grid1" in case:
        fn = check_one
    if fn:
        ctx.direct(prop, fn, [case])
