"""C14 — FuzzyLite Language export/import round-trips engines.

Oracles: (a) text idempotence export(import(export(e))) == export(e); (b) structure equality via an independent walker
over the objects; (c) grid regime: bit-identical outputs of the original and the re-imported engine; (d) fixed point
for accepted texts (semantics-preserving rewrites of exported texts and the shipped .fll files).
"""

from __future__ import annotations

import glob
import math
import os
import re

import numpy as np
from hypothesis import strategies as st

import fuzzylite as fl
from vlib import build, gen, refmath

RULE = ("cases are (engine spec over every registered term/norm/defuzzifier/activation class with parameters, "
        "descriptions, disabled variables/blocks, non-unit heights and weights, infinite input ranges, NaN defaults, "
        "`none` operators; decimals d in 1..9; numeric regime grid (every parameter representable at d decimals) or "
        "free (arbitrary doubles); input rows; a list of text rewrites); non-trivial when the engine has >= 1 rule and "
        ">= 1 non-default flag or parameterised component; distinct by (spec, d)")
ASSUMPTIONS = [
    "format limits (not code defects): FLL cannot carry Rule.enabled nor Function.variables, and First/Last/Highest/"
    "Lowest.rules and resolution are ints: engines are generated with enabled rules, Functions without a private map, "
    "int counts",
    "grid regime = numbers k/2 with d in 1..9, k/1000 with d in 3..9, k/64 with d in 6..9; heights and rule weights "
    "within 2*atol of 1 (but != 1) are replaced by 1 in the grid regime (statement's precondition for equal outputs); "
    "the free regime keeps them (text idempotence and structure are claimed for every engine)",
    "structure walker compares class names, names, flags and parameters rounded to d decimals; a height within atol of "
    "1 counts as 1 (documented omission rule)",
]

EX = fl.FllExporter()
IM = fl.FllImporter()


def known_height(label, case, detail):
    if label == "text-idempotence" and isinstance(detail, dict) and detail.get("only_unit_height_or_weight_tokens"):
        return "KF-C14-height-weight-rounds-to-one"
    return None


def setup_ctx(ctx):
    if any(k["id"] == "KF-C14-height-weight-rounds-to-one" for k in ctx.known):
        ctx.matchers.append(known_height)


def rnd(x, d):
    x = float(x)
    if math.isnan(x) or math.isinf(x):
        return str(x)
    return float(f"{x:.{d}f}") + 0.0


def term_struct(t, d):
    cls = type(t).__name__
    out = [t.name, cls]
    if cls == "Discrete":
        out.append([rnd(v, d) for v in np.asarray(t.values, dtype=float).reshape(-1)])
    elif cls == "Linear":
        out.append([rnd(v, d) for v in t.coefficients])
    elif cls == "Function":
        out.append(t.formula)
    else:
        for k, v in vars(t).items():
            if k in ("name", "height"):
                continue
            out.append((k, rnd(v, d)))
    if cls not in ("Constant", "Linear", "Function"):
        h = float(t.height)
        out.append(("height", 1.0 if abs(h - 1.0) <= fl.settings.atol else rnd(h, d)))
    return out


def comp(o, d):
    if o is None:
        return None
    cls = type(o).__name__
    if isinstance(o, fl.IntegralDefuzzifier):
        return [cls, int(o.resolution)]
    if isinstance(o, fl.WeightedDefuzzifier):
        return [cls, o.type.name]
    if isinstance(o, (fl.First, fl.Last)):
        return [cls, int(o.rules), rnd(o.threshold, d)]
    if isinstance(o, (fl.Highest, fl.Lowest)):
        return [cls, int(o.rules)]
    if isinstance(o, fl.Threshold):
        return [cls, o.comparator.value, rnd(o.threshold, d)]
    return [cls]


def structure(e, d):
    def var(v):
        return [v.name, v.description, bool(v.enabled), rnd(v.minimum, d), rnd(v.maximum, d), bool(v.lock_range),
                [term_struct(t, d) for t in v.terms]]

    outs = []
    for v in e.output_variables:
        outs.append(var(v) + [comp(v.aggregation, d), comp(v.defuzzifier, d), rnd(v.default_value, d),
                              bool(v.lock_previous)])
    blocks = []
    for b in e.rule_blocks:
        rules = []
        for r in b.rules:
            w = float(r.weight)
            rules.append([" ".join(r.antecedent.text.split()), " ".join(r.consequent.text.split()),
                          1.0 if abs(w - 1.0) <= fl.settings.atol else rnd(w, d), bool(r.is_loaded())])
        blocks.append([b.name, b.description, bool(b.enabled), comp(b.conjunction, d), comp(b.disjunction, d),
                       comp(b.implication, d), comp(b.activation, d), rules])
    return [e.name, e.description, [var(v) for v in e.input_variables], outs, blocks]


def first_diff(a, b, path=""):
    if type(a) is not type(b) and not (isinstance(a, (int, float)) and isinstance(b, (int, float))):
        return path, a, b
    if isinstance(a, (list, tuple)):
        if len(a) != len(b):
            return path + "/len", len(a), len(b)
        for i, (x, y) in enumerate(zip(a, b)):
            r = first_diff(x, y, f"{path}/{i}")
            if r:
                return r
        return None
    return None if a == b else (path, a, b)


def process_rows(e, rows):
    out = []
    e.restart()
    for row in rows:
        for v, x in zip(e.input_variables, row):
            v.value = float(x)
        try:
            e.process()
            out.append([float(np.asarray(v.value, dtype=float).reshape(-1)[0]) for v in e.output_variables])
        except Exception as ex:  # noqa: BLE001 - compared between the two engines
            out.append("raise:" + type(ex).__name__)
    return out


def same_outputs(a, b):
    if len(a) != len(b):
        return False
    for x, y in zip(a, b):
        if isinstance(x, str) or isinstance(y, str):
            if x != y:
                return False
            continue
        if len(x) != len(y) or any(not ((math.isnan(p) and math.isnan(q)) or
                                        (p == q and math.copysign(1.0, p) == math.copysign(1.0, q))) for p, q in zip(x, y)):
            return False  # bit-identical: also the sign of a zero
    return True


def rewrite(text, edits, d):
    """Semantics-preserving rewrites of an exported text that the importer accepts."""
    lines = text.split("\n")
    for ed in edits:
        kind = ed[0]
        if kind == "blank":
            i = ed[1] % (len(lines) + 1)
            lines.insert(i, "" if ed[2] else "   ")
        elif kind == "comment":
            i = ed[1] % (len(lines) + 1)
            lines.insert(i, "# a comment: with a colon")
        elif kind == "trailing_comment":
            cand = [i for i, l in enumerate(lines) if l.strip() and not l.strip().startswith("#")]
            if cand:
                i = cand[ed[1] % len(cand)]
                lines[i] = lines[i] + "   # trailing comment"
        elif kind == "omit_default":
            pats = ["  enabled: true", "  lock-range: false", "  lock-previous: false", "  default: nan",
                    "  aggregation: none", "  defuzzifier: none", "  conjunction: none", "  disjunction: none",
                    "  implication: none", "  activation: none"]
            cand = [i for i, l in enumerate(lines) if l in pats]
            if cand:
                del lines[cand[ed[1] % len(cand)]]
        elif kind == "more_digits":
            def repl(m):
                return m.group(0) + "0" * (1 + ed[1] % 3)

            cand = [i for i, l in enumerate(lines) if re.match(r"\s+(range|default|term):", l) and "Function" not in l]
            if cand:
                i = cand[ed[1] % len(cand)]
                lines[i] = re.sub(r"(?<![\w.])-?\d+\.\d+(?![\w.])", repl, lines[i])
        elif kind == "swap_props":
            # swap two adjacent property lines (not term/rule lines, not headers) inside a block
            cand = [i for i in range(len(lines) - 1)
                    if all(re.match(r"  (enabled|range|lock-range|lock-previous|default|aggregation|defuzzifier|"
                                    r"conjunction|disjunction|implication|activation|description):", lines[j])
                           for j in (i, i + 1))]
            if cand:
                i = cand[ed[1] % len(cand)]
                lines[i], lines[i + 1] = lines[i + 1], lines[i]
        elif kind == "indent":
            lines = [("\t" + l.strip() if l.startswith("  ") else l) for l in lines]
    return "\n".join(lines)


def check_roundtrip(ctx, case) -> None:
    spec, d, rows, regime = case["spec"], int(case["d"]), case["rows"], case["regime"]
    ctx.ev()
    ctx.cls("regime:" + regime)
    ctx.cls(f"decimals:{d}")
    with fl.settings.context(decimals=d):
        e = build.mk_engine(spec, decimals=d, explicit_weights=True)
        t1 = EX.to_string(e)
        if case.get("via_file"):
            # the file entry points carry exactly the string forms
            import tempfile

            with tempfile.TemporaryDirectory(prefix="pfl_c14_") as tmp:
                path = os.path.join(tmp, "engine.fll")
                EX.to_file(path if case["via_file"] == "str" else __import__("pathlib").Path(path), e)
                with open(path, encoding="utf-8") as fh:
                    on_disk = fh.read()
                ctx.check(on_disk == t1, "file-differs-from-string-export", case, {"file": on_disk[:300], "string": t1[:300]})
                e2 = IM.from_file(path if case["via_file"] == "str" else __import__("pathlib").Path(path))
            ctx.cls("via_file")
        else:
            e2 = IM.from_string(t1)
        t2 = EX.to_string(e2)
        if t1 != t2:
            l1, l2 = t1.split("\n"), t2.split("\n")
            diffs = [(a, b) for a, b in zip(l1, l2) if a != b]
            one = f"{1.0:.{d}f}"
            only = len(l1) == len(l2) and all(
                (a.startswith("  term:") and a == b + " " + one) or
                (a.startswith("  rule:") and a == b + " with " + one) for a, b in diffs)
            ctx.fail("text-idempotence", case, {"first": diffs[:3] if diffs else [len(l1), len(l2)],
                                                "only_unit_height_or_weight_tokens": bool(only and diffs)})
        s1, s2 = structure(e, d), structure(e2, d)
        df = first_diff(s1, s2)
        if df:
            ctx.fail("structure", case, {"path": df[0], "original": repr(df[1])[:200], "imported": repr(df[2])[:200]})
        if regime != "free":
            o1 = process_rows(build.mk_engine(spec, decimals=d, explicit_weights=True), rows)
            o2 = process_rows(e2, rows)
            ctx.check(same_outputs(o1, o2), "outputs-differ", case, {"original": o1, "imported": o2})
        # (d) fixed point for accepted (rewritten) texts
        if case.get("edits"):
            tw = rewrite(t1, case["edits"], d)
            e3 = IM.from_string(tw)
            E1 = EX.to_string(e3)
            E2 = EX.to_string(IM.from_string(E1))
            ctx.check(E1 == E2, "fixed-point", case, {"rewritten": tw[:600], "first": [
                (a, b) for a, b in zip(E1.split("\n"), E2.split("\n")) if a != b][:3]})
            ctx.cls("rewritten_texts")
    # coverage bookkeeping
    for v in spec["inputs"] + spec["outputs"]:
        for t in v["terms"]:
            ctx.cls("term:" + t["cls"])
    for v in spec["outputs"]:
        ctx.cls("defuzzifier:" + (v["defuzzifier"]["cls"] if v["defuzzifier"] else "none"))
    for b in spec["blocks"]:
        ctx.cls("activation:" + (b["activation"]["cls"] if b["activation"] else "none"))
    nrules = sum(len(b["rules"]) for b in spec["blocks"])
    nondefault = any(not v.get("enabled", True) or v.get("lock_range") or v.get("description") for v in
                     spec["inputs"] + spec["outputs"] + spec["blocks"]) or \
        any(v["defuzzifier"] and (v["defuzzifier"].get("resolution", 1000) != 1000 or
                                  v["defuzzifier"].get("type", "Automatic") != "Automatic") for v in spec["outputs"]) or \
        any(b["activation"] and len(b["activation"]) > 1 for b in spec["blocks"])
    if nrules >= 1 and nondefault:
        ctx.nt([spec, d], {"decimals": d, "regime": regime, "fll": t1[:1500]})


def check_shipped(ctx, case) -> None:
    text = open(case["file"]).read()
    ctx.ev()
    e = IM.from_string(text)
    E1 = EX.to_string(e)
    E2 = EX.to_string(IM.from_string(E1))
    ctx.check(E1 == E2, "fixed-point-shipped", case, {"first": [
        (a, b) for a, b in zip(E1.split("\n"), E2.split("\n")) if a != b][:3]})
    ctx.nt(["shipped", os.path.basename(case["file"])], {"file": case["file"]})


# ---------------------------------------------------------------------------------------------------
DESCR = ["", "", "a description", "with: colon and 'quotes' \"double\"", "unicode é ü 数", "  padded  ".strip(),
         "semi;colon, comma", "ends with colon:", "a: b: c: d", "key: value: 1.000 : x", "range: 0.000 1.000",
         "term: a Triangle 0 1 2", "if a is b then c is d", "back\\slash and [brackets] {braces} (parens)"]
DESCRIPTION = st.one_of(st.sampled_from(DESCR), st.text(alphabet="ab: '\"=,;.é1-", max_size=12).map(
    lambda s: " ".join(s.split())))


THRESHOLDS = {"half": [0.0, 0.5, 1.0], "dec": [0.0, 0.5, 1.0, 0.25, 0.125, 0.333, 0.667, 0.001, 0.999],
              "dy": [0.0, 0.5, 1.0, 0.25, 0.125, 0.015625, 0.984375],
              "free": [0.0, 0.5, 1.0, 0.25, 1 / 3, 2 / 3, 0.1, 0.123456789, 1e-7]}


@st.composite
def any_activation(draw, rg="half"):
    cls = draw(st.sampled_from(["General", "General", "First", "Last", "Highest", "Lowest", "Threshold", "Proportional",
                                None]))
    if cls is None:
        return None
    thr = st.sampled_from(THRESHOLDS[rg])
    if cls in ("First", "Last"):
        return {"cls": cls, "rules": draw(st.sampled_from([0, 1, 2, 3, 5, 12, 100])), "threshold": draw(thr)}
    if cls in ("Highest", "Lowest"):
        return {"cls": cls, "rules": draw(st.sampled_from([0, 1, 2, 3, 5, 12, 100]))}
    if cls == "Threshold":
        return {"cls": cls, "comparator": draw(st.sampled_from(["<", "<=", "==", "!=", ">=", ">"])),
                "threshold": draw(thr)}
    return {"cls": cls}


UNICODE_TERMS = ["élevée", "niño", "größe", "Δt", "температура", "basse_é", "pass", "class", "in", "for", "lambda"]
UNICODE_VARS = ["température", "Größe", "скорость", "global", "return", "as"]


def _walk_props(a):
    if "op" in a:
        yield from _walk_props(a["l"])
        yield from _walk_props(a["r"])
    else:
        yield a


def rename(spec, draw):
    """Rename one term (and possibly one variable) to a name with non-ASCII letters, consistently in the rules."""
    variables = spec["inputs"] + spec["outputs"]
    v = draw(st.sampled_from(variables))
    t = draw(st.sampled_from(v["terms"]))
    old, new = t["name"], draw(st.sampled_from(UNICODE_TERMS))
    if all(x["name"] != new for x in v["terms"]):
        t["name"] = new
        for b in spec["blocks"]:
            for r in b["rules"]:
                for p_ in list(_walk_props(r["ante"])) + r["cons"]:
                    if p_["var"] == v["name"] and p_.get("term") == old:
                        p_["term"] = new
    formulas = " ".join(x.get("formula", "") for y in variables for x in y["terms"])
    w = draw(st.sampled_from(variables))
    if draw(st.booleans()) and w["name"] not in formulas.replace("(", " ").replace(")", " ").replace(",", " ").split():
        oldv, newv = w["name"], draw(st.sampled_from(UNICODE_VARS))
        if all(y["name"] != newv for y in variables):
            w["name"] = newv
            for b in spec["blocks"]:
                for r in b["rules"]:
                    for p_ in list(_walk_props(r["ante"])) + r["cons"]:
                        if p_["var"] == oldv:
                            p_["var"] = newv


def fll_spec(draw, rg):
    spec = draw(gen.engine(rg=rg, activation=any_activation(rg), functions=True, n_rules=(0, 5)))
    atol2 = 2e-3
    for v in spec["inputs"] + spec["outputs"]:
        v["description"] = draw(DESCRIPTION)
        for t in v["terms"]:
            if rg != "free" and t.get("h", 1.0) != 1.0 and abs(t["h"] - 1.0) <= atol2:
                t["h"] = 1.0
    for v in spec["inputs"]:
        k = draw(st.integers(0, 9))
        if k == 0:
            v["min"] = -math.inf
        elif k == 1:
            v["max"] = math.inf
    for v in spec["outputs"]:
        if draw(st.integers(0, 11)) == 0:
            v["aggregation"] = None
        if draw(st.integers(0, 15)) == 0:
            v["defuzzifier"] = None
    for b in spec["blocks"]:
        b["description"] = draw(DESCRIPTION)
        for key in ("conjunction", "disjunction", "implication"):
            if draw(st.integers(0, 11)) == 0:
                b[key] = None
        for r in b["rules"]:
            r["enabled"] = True
            w = r.get("weight")
            if rg != "free" and w is not None and w != 1.0 and abs(w - 1.0) <= atol2:
                r["weight"] = 1.0
    if rg == "free" and draw(st.integers(0, 2)) == 0:
        # heights / weights next to 1: just inside and just outside the comparison tolerance, and values that print
        # as 1 at few decimals
        near = st.sampled_from([0.996, 0.997, 0.9949, 0.9951, 0.99949, 0.9996, 0.9989, 0.9991, 0.96, 0.94])
        ts = [t for v in spec["inputs"] + spec["outputs"] for t in v["terms"]
              if t["cls"] not in ("Constant", "Linear", "Function")]
        rs = [r for b in spec["blocks"] for r in b["rules"]]
        if ts and draw(st.booleans()):
            draw(st.sampled_from(ts))["h"] = draw(near)
        elif rs:
            draw(st.sampled_from(rs))["weight"] = draw(near)
    # an engine-dependent term (Function naming an engine variable) in an INPUT variable, used by a rule
    if spec["blocks"] and draw(st.integers(0, 3)) == 0:
        iv = draw(st.sampled_from(spec["inputs"]))
        other = draw(st.sampled_from(spec["inputs"]))["name"]
        c1, c2 = draw(st.sampled_from([0.0, 0.5, 0.25])), draw(st.sampled_from([0.0, 0.5, 1.0]))
        iv["terms"].append({"cls": "Function", "formula": f"0.5 * gt(x, {c1:.3f}) + 0.25 * ge({other}, {c2:.3f})", "p": [],
                            "h": 1.0, "name": "fdep"})
        ov = spec["outputs"][0]
        spec["blocks"][0]["rules"].append({"ante": {"var": iv["name"], "hedges": [], "term": "fdep", "rp": False},
                                           "cons": [{"var": ov["name"], "hedges": [], "term": ov["terms"][0]["name"]}],
                                           "weight": None, "enabled": True, "tight": False})
    # names with non-ASCII letters (valid identifiers) for one term and, when no formula mentions it, one variable
    if draw(st.integers(0, 3)) == 0:
        rename(spec, draw)
    spec["name"] = draw(st.sampled_from(["E", "engine_1", "ObstacleAvoidance", "x2"]))
    spec["description"] = draw(DESCRIPTION)
    return spec


EDIT = st.one_of(
    st.tuples(st.just("blank"), st.integers(0, 200), st.booleans()).map(list),
    st.tuples(st.just("comment"), st.integers(0, 200)).map(list),
    st.tuples(st.just("trailing_comment"), st.integers(0, 200)).map(list),
    st.tuples(st.just("omit_default"), st.integers(0, 50)).map(list),
    st.tuples(st.just("more_digits"), st.integers(0, 50)).map(list),
    st.tuples(st.just("swap_props"), st.integers(0, 50)).map(list),
    st.just(["indent"]))


@st.composite
def cases(draw):
    rg, dlo = draw(st.sampled_from([("half", 1), ("half", 1), ("dec", 3), ("dec", 3), ("dy", 6), ("free", 1),
                                    ("free", 1)]))
    d = draw(st.integers(dlo, 9))
    spec = fll_spec(draw, rg)
    rows = [draw(gen.input_row(spec)) for _ in range(draw(st.integers(1, 4)))]
    edits = draw(st.lists(EDIT, max_size=5)) if draw(st.booleans()) else []
    return {"spec": spec, "d": d, "rows": rows, "regime": "free" if rg == "free" else "grid:" + rg, "edits": edits,
            "via_file": draw(st.sampled_from([None, None, None, "str", "path"]))}


def shard(ctx, shard, nshards, ex):
    ctx.hyp("roundtrip", cases(), check_roundtrip, ex)


def run(ctx) -> None:
    import sys

    from vlib import env, runner

    files = sorted(glob.glob(os.path.join(env.REPO, "fuzzylite", "examples", "**", "*.fll"), recursive=True))
    ctx.direct("shipped", check_shipped, [{"file": f} for f in files])
    ctx.cls("shipped_fll_files", len(files))
    mod = sys.modules[__name__]
    if ctx.tier == "quick":
        runner.run_sharded(ctx, mod, "shard", 8, ex=200)
    else:
        runner.run_sharded(ctx, mod, "shard", 16, ex=2500)


def replay(ctx, prop, case) -> None:
    fn = {"roundtrip": check_roundtrip, "shipped": check_shipped}.get(prop)
    if fn:
        ctx.direct(prop, fn, [case])
