"""C16 — Malformed rule and FLL text is rejected cleanly, never accepted or crashed on.

Oracle: outcome classification. accepted -> must export, (rule) evaluate, and the export must be re-accepted as a
fixed point; rejected -> SyntaxError / ValueError / KeyError; TypeError, AttributeError, IndexError, RecursionError,
NameError, AssertionError are violations; a failed load must leave the rule not loaded; a rule with exactly one
injected error of a listed class must be rejected. Thorough tier adds atheris campaigns with the same oracle.
"""

from __future__ import annotations

import glob
import os
import sys

from hypothesis import strategies as st

import fuzzylite as fl
from vlib import env, gen, textmut as tm

RULE = ("cases are (valid rule printed from a generated AST over a fixed engine with disjoint variable/term names, list "
        "of token-level mutations) | (rule AST, one injected error of a listed class) | (valid FLL document, list of "
        "line/token-level mutations); non-trivial when the mutated text differs from the seed and gets past the first "
        "keyword (rule starts with `if` / FLL has a recognised component line); distinct by mutated text")
ASSUMPTIONS = [
    "allowed rejections: SyntaxError, ValueError, KeyError (the statement's syntax, value or lookup error); violations: "
    "TypeError, AttributeError, IndexError, RecursionError, NameError/UnboundLocalError, AssertionError; any other "
    "exception type (RuntimeError, ZeroDivisionError, OverflowError ...) is counted `unclassified:<type>` and listed, "
    "not judged",
    "variable and term names of the rule engine are disjoint from each other, from hedges, keywords and function "
    "names, so that the listed single-error classes are unambiguous; injected unknown names are outside all pools",
    "non-numeric weights are words Python's float() rejects (abc, 0,5, 1.0.0, --1, one); numeric spellings such as "
    "1e-3, nan, inf, 1_0 are accepted weights and are not asserted against",
    "an accepted mutated FLL text must export and the export must re-import to the same export (nothing is asserted "
    "about processing it: a mutated document may legitimately lack operators)",
]

EX = fl.FllExporter()
IM = fl.FllImporter()


def rule_engine():
    def tri(names):
        n = len(names)
        return [fl.Triangle(nm, i / n - 0.25, i / n + 0.25, i / n + 0.75) for i, nm in enumerate(names)]

    return fl.Engine(
        name="R",
        input_variables=[fl.InputVariable(v, minimum=0.0, maximum=1.0, terms=tri(ts)) for v, ts in tm.IN_VARS.items()]
        + [fl.InputVariable("Bare", minimum=0.0, maximum=1.0)],  # a variable without terms (never used by seed rules)
        output_variables=[fl.OutputVariable(v, minimum=0.0, maximum=1.0, terms=tri(ts), defuzzifier=fl.Centroid(10),
                                            aggregation=fl.Maximum()) for v, ts in tm.OUT_VARS.items()],
        rule_blocks=[fl.RuleBlock("rb", conjunction=fl.Minimum(), disjunction=fl.Maximum(), implication=fl.Minimum(),
                                  activation=fl.General())])


IV = [(v, ts) for v, ts in tm.IN_VARS.items()]
OV = [(v, ts) for v, ts in tm.OUT_VARS.items()]


def judge_exception(ctx, ex, label, case, text):
    kind = tm.classify(ex)
    name = type(ex).__name__
    if kind == "internal":
        ctx.fail(f"{label}-internal-{name}", case, {"text": text[:800], "exception": f"{name}: {ex}"[:300]})
    ctx.cls(("rejected:" if kind == "rejected" else "unclassified:") + name)


def check_rule_text(ctx, case, text, must_reject=None, engines=None) -> str:
    """Run the oracle on one rule text; returns 'accepted' or 'rejected'. `engines`: optional pair of rule engines to
    reuse (fuzz targets); their state is reset here."""
    engine = engines[0] if engines else rule_engine()
    for v in engine.input_variables:
        v.value = 0.4
    for v in engine.output_variables:
        v.fuzzy.clear()
    try:
        rule = fl.Rule.create(text, engine)
    except RecursionError as ex:
        judge_exception(ctx, ex, "rule", case, text)
        return "rejected"
    except Exception as ex:  # noqa: BLE001
        judge_exception(ctx, ex, "rule", case, text)
        outcome = "rejected"
    else:
        outcome = "accepted"
        if must_reject:
            ctx.fail("accepted-" + must_reject, case, {"text": text, "reads_as": str(rule)})
        ctx.check(rule.is_loaded(), "accepted-but-not-loaded", case, {"text": text})
        try:
            out = rule.text
            degree = rule.activate_with(fl.Minimum(), fl.Maximum())
            rule.trigger(fl.Minimum())
            float(degree)
            again = fl.Rule.create(out, engine)
            out2 = again.text
        except Exception as ex:  # noqa: BLE001
            ctx.fail(f"accepted-rule-unusable-{type(ex).__name__}", case,
                     {"text": text, "exception": f"{type(ex).__name__}: {ex}"[:300]})
        ctx.check(out == out2, "accepted-rule-export-not-fixed-point", case, {"text": text, "export": out,
                                                                              "again": out2})
    # load on a previously loaded rule whose text is replaced
    engine2 = engines[1] if engines else rule_engine()
    old = fl.Rule.create("if Ambient is DARK then Power is HIGH", engine2)
    try:
        old.parse(text)
    except Exception as ex:  # noqa: BLE001
        if tm.classify(ex) == "internal":
            ctx.fail(f"parse-internal-{type(ex).__name__}", case, {"text": text, "exception": str(ex)[:200]})
        return outcome
    try:
        old.load(engine2)
    except Exception as ex:  # noqa: BLE001
        if tm.classify(ex) == "internal":
            ctx.fail(f"load-internal-{type(ex).__name__}", case, {"text": text, "exception": str(ex)[:200]})
        ctx.check(not old.is_loaded(), "loaded-after-failed-load", case, {"text": text, "exception": str(ex)[:200]})
        ctx.check(outcome == "rejected", "create-and-reload-disagree", case, {"text": text})
        ctx.cls("failed_load_leaves_unloaded")
    else:
        ctx.check(outcome == "accepted", "create-and-reload-disagree", case, {"text": text})
        ctx.check(old.is_loaded(), "not-loaded-after-successful-load", case, {"text": text})
    return outcome


DEGENERATE = [
    "", " ", "if", "then", "with", "if then", "if  then  with", "if ( ) then Power is LOW", "if () then Power is LOW",
    "if ( ( ) ) then Power is LOW", "if ( ) ( ) then Power is LOW", "if ( ) then ( )", "if Ambient is DARK then ( )",
    "if Ambient is DARK then", "if then Power is LOW", "if Ambient is DARK then Power is LOW with",
    "if Ambient is DARK then Power is LOW with with", "if Bare is any then Power is LOW", "if Bare is not any then Power is LOW",
    "if Ambient is DARK and Bare is any then Power is LOW", "if Bare is DARK then Power is LOW", "if Bare then Power is LOW",
    "if Ambient is any any then Power is LOW", "if Ambient is any DARK then Power is LOW", "if any then Power is LOW",
    "if Ambient is DARK then Power is any", "if Ambient is DARK then Bare is any", "if is then is", "if and then and",
    "if Ambient is DARK and then Power is LOW", "if or Ambient is DARK then Power is LOW", "if , then Power is LOW",
    "if Ambient is DARK , Speed is FAST then Power is LOW", "if Ambient is DARK then Power is LOW , Fan is ON",
    "if Ambient is DARK then Power is LOW with 0.5 # comment", "# only a comment", "if Ambient is DARK # then Power is LOW",
    "if Ambient\tis\tDARK\tthen\tPower\tis\tLOW", "if Ambient is DARK then Power is LOW with 1e400",
    "if Ambient is DARK then Power is LOW with -0.5", "if ) Ambient is DARK ( then Power is LOW", "if )( then Power is LOW",
    "if Ambient is (DARK) then Power is LOW", "if (Ambient) is DARK then Power is LOW", "if Ambient (is) DARK then Power is LOW",
    "if not Ambient is DARK then Power is LOW", "if Ambient is not then Power is LOW", "if Power is LOW then Ambient is DARK",
]


def check_degenerate(ctx, case) -> None:
    """Fixed corpus of degenerate rule texts (empty parts, bare parentheses, a variable without terms ...): the outcome
    oracle only (accepted => usable; rejected => clean exception)."""
    ctx.ev()
    text = case["text"].encode().decode("unicode_escape") if "\\t" in case["text"] else case["text"]
    outcome = check_rule_text(ctx, case, text)
    ctx.cls("degenerate:" + outcome)
    ctx.nt(["degenerate", text], {"text": text, "outcome": outcome})


def seed_rule_tokens(r):
    r = dict(r, tight=False)
    return gen.rule_text(r).split()


def check_mutated_rule(ctx, case) -> None:
    seed = seed_rule_tokens(case["rule"])
    toks = tm.mutate_tokens(seed, case["ops"], tm.RULE_POOL)
    text = " ".join(toks)
    if case.get("tight"):
        text = text.replace("( ", "(").replace(" )", ")")
    ctx.ev()
    outcome = check_rule_text(ctx, case, text)
    ctx.cls("mutated_rule:" + outcome)
    if toks != seed and toks[:1] == ["if"]:
        ctx.nt(text, {"seed": " ".join(seed), "text": text, "outcome": outcome})


# ---- exactly one injected error ------------------------------------------------------------------
ERROR_CLASSES = ["missing_if", "missing_then", "missing_is", "missing_connective", "missing_variable", "missing_term", "missing_operand",
                 "unknown_variable", "unknown_term", "unknown_hedge", "foreign_term", "foreign_variable", "stray_comma", "unbalanced_paren", "nonnumeric_weight",
                 "trailing_token"]
UNKNOWN_NAMES = ["Foo", "bar_9", "Ambiente", "dark", "Q", "Powe", "veryy", "high_", "LOWER"]
BAD_WEIGHTS = ["abc", "0,5", "1.0.0", "--1", "one", "HIGH", "0.5x", "1..0"]
TRAILING = ["extra", "0.5", "HIGH", "Power", "very", "is", "then", "if", "with", "1.0 2.0"]


def inject(r, cls, pick):
    """Return the rule text with exactly one error of class `cls`, or None if not applicable to this rule."""
    toks = seed_rule_tokens(r)
    names_var = set(tm.IN_VARS) | set(tm.OUT_VARS)
    names_term = {t for ts in list(tm.IN_VARS.values()) + list(tm.OUT_VARS.values()) for t in ts}
    it = toks.index("then")

    def positions(pred):
        return [i for i, t in enumerate(toks) if pred(i, t)]

    if cls == "missing_if":
        del toks[0]
    elif cls == "missing_then":
        del toks[it]
    elif cls == "missing_is":
        idx = positions(lambda i, t: t == "is")
        del toks[idx[pick % len(idx)]]
    elif cls == "missing_connective":
        idx = positions(lambda i, t: t in ("and", "or"))
        if not idx:
            return None
        del toks[idx[pick % len(idx)]]
    elif cls == "missing_variable":
        idx = positions(lambda i, t: t in names_var)
        del toks[idx[pick % len(idx)]]
    elif cls == "missing_term":
        idx = positions(lambda i, t: t in names_term)
        if not idx:
            return None
        del toks[idx[pick % len(idx)]]
    elif cls == "missing_operand":
        # delete a whole proposition next to a connective: tokens `var is hedge* (term)`
        conn = positions(lambda i, t: t in ("and", "or"))
        if not conn:
            return None
        c = conn[pick % len(conn)]
        j = c + 1
        while j < len(toks) and toks[j] == "(":
            j += 1
        if j >= len(toks) or toks[j] not in names_var:
            return None
        k = j + 1
        if k < len(toks) and toks[k] == "is":
            k += 1
        while k < len(toks) and toks[k] in tm.HEDGES:
            k += 1
        if k < len(toks) and toks[k] in names_term:
            k += 1
        del toks[j:k]
    elif cls == "unknown_variable":
        idx = positions(lambda i, t: t in names_var)
        toks[idx[pick % len(idx)]] = UNKNOWN_NAMES[pick % len(UNKNOWN_NAMES)]
    elif cls == "unknown_term":
        idx = positions(lambda i, t: t in names_term)
        if not idx:
            return None
        toks[idx[pick % len(idx)]] = UNKNOWN_NAMES[pick % len(UNKNOWN_NAMES)]
    elif cls == "foreign_term":
        # a term that exists, but on another variable (unknown name for the variable of this proposition)
        idx = positions(lambda i, t: t in names_term)
        if not idx:
            return None
        i = idx[pick % len(idx)]
        owner = next(v for v, ts in list(tm.IN_VARS.items()) + list(tm.OUT_VARS.items()) if toks[i] in ts)
        others = [t for v, ts in list(tm.IN_VARS.items()) + list(tm.OUT_VARS.items()) if v != owner for t in ts]
        toks[i] = others[(pick // 7) % len(others)]
        # half of the time: the term of a *later* conclusion is replaced by a term of an earlier concluded variable
        concl = [j for j in idx if j > it]
        if pick % 2 and len(concl) >= 2:
            toks = seed_rule_tokens(r)
            first_owner = next(v for v, ts in tm.OUT_VARS.items() if toks[concl[0]] in ts)
            last_owner = next(v for v, ts in tm.OUT_VARS.items() if toks[concl[-1]] in ts)
            if first_owner != last_owner:
                toks[concl[-1]] = tm.OUT_VARS[first_owner][(pick // 3) % len(tm.OUT_VARS[first_owner])]
            else:
                toks[i] = others[(pick // 7) % len(others)]
    elif cls == "foreign_variable":
        # an input variable in the consequent (only output variables can be concluded on)
        idx = positions(lambda i, t: i > it and t in tm.OUT_VARS)
        toks[idx[pick % len(idx)]] = list(tm.IN_VARS)[pick % len(tm.IN_VARS)]
    elif cls == "stray_comma":
        # an extra token `,` in the antecedent, outside any parentheses (commas are not part of the rule grammar)
        depth, spots = 0, []
        for i in range(1, it + 1):
            if depth == 0:
                spots.append(i)
            depth += (toks[i] == "(") - (toks[i] == ")") if i < it else 0
        toks.insert(spots[pick % len(spots)], ",")
    elif cls == "unknown_hedge":
        idx = positions(lambda i, t: t == "is")
        toks.insert(idx[pick % len(idx)] + 1, UNKNOWN_NAMES[pick % len(UNKNOWN_NAMES)])
    elif cls == "unbalanced_paren":
        paren = positions(lambda i, t: t in ("(", ")"))
        if paren and pick % 2:
            del toks[paren[pick % len(paren)]]
        else:
            hi = len(toks) if "with" not in toks else toks.index("with")
            toks.insert(1 + pick % (hi - 1), "(" if (pick // 2) % 2 else ")")
    elif cls == "nonnumeric_weight":
        if "with" in toks:
            del toks[toks.index("with"):]
        toks += ["with", BAD_WEIGHTS[pick % len(BAD_WEIGHTS)]]
    elif cls == "trailing_token":
        toks += TRAILING[pick % len(TRAILING)].split()
    return " ".join(toks)


def check_injected(ctx, case) -> None:
    text = inject(case["rule"], case["cls"], case["pick"])
    if text is None:
        ctx.cls("injection_not_applicable")
        return
    if case.get("tight"):
        text = text.replace("( ", "(").replace(" )", ")")
    ctx.ev()
    ctx.cls("injected:" + case["cls"])
    check_rule_text(ctx, case, text, must_reject=case["cls"])
    ctx.nt(text, {"seed": " ".join(seed_rule_tokens(case["rule"])), "injected": case["cls"], "text": text})


# ---- FLL ---------------------------------------------------------------------------------------------
def check_fll_text(ctx, case, text, label="fll") -> str:
    try:
        e = IM.from_string(text)
    except Exception as ex:  # noqa: BLE001 (RecursionError is an Exception)
        judge_exception(ctx, ex, label, case, text)
        return "rejected"
    try:
        t1 = EX.to_string(e)
    except Exception as ex:  # noqa: BLE001
        ctx.fail(f"accepted-fll-unusable-{type(ex).__name__}", case,
                 {"text": text[:800], "exception": f"{type(ex).__name__}: {ex}"[:300]})
    names = [v.name for v in e.variables]
    if len(set(names)) != len(names) or any(len({t.name for t in v.terms}) != len(v.terms) for v in e.variables):
        # two variables (or two terms of a variable) with the same name: the engine is exportable, which is all the
        # statement asks; which of the namesakes a rule means depends on the order of the blocks in the text, so the
        # export (variables first) need not re-import - unique names are an implicit precondition of every engine
        ctx.cls("accepted_fll_with_duplicate_names")
        return "accepted"
    try:
        t2 = EX.to_string(IM.from_string(t1))
    except Exception as ex:  # noqa: BLE001
        ctx.fail(f"accepted-fll-unusable-{type(ex).__name__}", case,
                 {"text": text[:800], "exception": f"{type(ex).__name__}: {ex}"[:300]})
    ctx.check(t1 == t2, "accepted-fll-export-not-fixed-point", case, {"text": text[:800], "first": [
        (a, b) for a, b in zip(t1.split("\n"), t2.split("\n")) if a != b][:3]})
    for rb in e.rule_blocks:
        for r in rb.rules:
            ctx.check(r.is_loaded() or not (e.input_variables or e.output_variables), "imported-rule-not-loaded", case,
                      {"rule": str(r)})
    return "accepted"


def check_mutated_fll(ctx, case) -> None:
    seed = case["seed"]
    lines = tm.mutate_lines(seed.split("\n"), case["ops"])
    text = "\n".join(lines)
    ctx.ev()
    outcome = check_fll_text(ctx, case, text)
    ctx.cls("mutated_fll:" + outcome)
    if text != seed and any(ln.split(":")[0].strip() in ("Engine", "InputVariable", "OutputVariable", "RuleBlock")
                            for ln in lines):
        ctx.nt(text, {"text": text[:700], "outcome": outcome, "ops": case["ops"]})


# ---- generators --------------------------------------------------------------------------------------
TOKOP = st.tuples(st.sampled_from(["delete", "delete", "duplicate", "substitute", "substitute", "insert", "truncate",
                                   "swap", "glue"]), st.integers(0, 60), st.integers(0, 200)).map(list)
LINEOP = st.tuples(st.sampled_from(["drop", "dup", "swap", "truncate", "cut", "insert", "key", "value", "value",
                                    "tokdel", "tokdel", "tokdup", "tokword", "tokword", "nocolon"]),
                   st.integers(0, 120), st.integers(0, 200)).map(list)


def seed_rule():
    return gen.rule(IV, OV, ante_vars=IV + OV, depth=3, weights=True, flags=False)


@st.composite
def mutated_rule_cases(draw):
    return {"rule": draw(seed_rule()), "ops": draw(st.lists(TOKOP, min_size=1, max_size=4)),
            "tight": draw(st.booleans())}


@st.composite
def injected_cases(draw):
    return {"rule": draw(seed_rule()), "cls": draw(st.sampled_from(ERROR_CLASSES)), "pick": draw(st.integers(0, 500)),
            "tight": draw(st.sampled_from([False, False, True]))}


def fll_seeds():
    files = sorted(glob.glob(os.path.join(env.REPO, "fuzzylite", "examples", "**", "*.fll"), recursive=True))
    keep = [f for f in files if os.path.getsize(f) < 2500][:12]
    return [open(f).read() for f in keep]


@st.composite
def mutated_fll_cases(draw, seeds):
    if draw(st.integers(0, 2)) == 0:
        from checks import c14_fll

        spec = c14_fll.fll_spec(draw, draw(st.sampled_from(["half", "dec"])))
        from vlib import build

        seed = EX.to_string(build.mk_engine(spec))
    else:
        seed = draw(st.sampled_from(seeds))
    return {"seed": seed, "ops": draw(st.lists(LINEOP, min_size=1, max_size=4))}


def shard(ctx, shard, nshards, ex):
    ctx.hyp("mutated_rule", mutated_rule_cases(), check_mutated_rule, ex)
    ctx.hyp("injected", injected_cases(), check_injected, ex)
    ctx.hyp("mutated_fll", mutated_fll_cases(fll_seeds()), check_mutated_fll, max(20, ex // 3))


# ---- atheris campaigns (thorough tier): vlib/fuzzrun.py ----------------------------------------------
def check_text_case(ctx, case) -> None:
    ctx.ev()
    if case["kind"] == "fuzz_rule_text":
        check_rule_text(ctx, case, case["text"])
    else:
        check_fll_text(ctx, case, case["text"])


def run(ctx) -> None:
    from vlib import runner

    mod = sys.modules[__name__]
    ctx.direct("degenerate", check_degenerate, [{"text": t} for t in DEGENERATE])
    if ctx.tier == "quick":
        runner.run_sharded(ctx, mod, "shard", 8, ex=700)
    else:
        runner.run_sharded(ctx, mod, "shard", 16, ex=20000)
        from vlib import fuzzrun

        if fuzzrun.available():
            for target, prop, runs in (("fuzz_rule", "fuzz_rule_text", 300000), ("fuzz_fll", "fuzz_fll_text", 80000)):
                for corpus in (True, False):
                    fuzzrun.run_campaign(ctx, target, runs, corpus, prop, check_text_case,
                                         max_len=256 if target == "fuzz_rule" else 600)
        else:
            ctx.note("atheris is not importable here: coverage-guided campaigns skipped (Hypothesis mutation only)")


def replay(ctx, prop, case) -> None:
    fn = {"mutated_rule": check_mutated_rule, "injected": check_injected, "mutated_fll": check_mutated_fll,
          "degenerate": check_degenerate,
          "fuzz_rule_text": check_text_case, "fuzz_fll_text": check_text_case}.get(prop)
    if fn:
        ctx.direct(prop, fn, [case])
