"""C12 — Output values follow the lock-previous / default / lock-range cascade (model-based, over call histories).

Oracle: a pure-Python per-row model of the cascade written from the statement. Histories are generated as operation
lists (scalar defuzzification, batch, failing defuzzifier, clear, restart, toggle enabled) and interpreted against both
the model and the implementation, comparing after every step.
"""

from __future__ import annotations

import math

import numpy as np
from hypothesis import strategies as st

import fuzzylite as fl
from vlib import build

RULE = ("cases are (one of the 12 settings lock-previous x default in {NaN, inside, outside the range} x lock-range, "
        "driver variant, history of operations of length <= 30 (thorough 50)); non-trivial when the history has >= 2 "
        "defuzzification calls and contains a NaN after a valid value or a failure after a valid value; distinct by "
        "(setting, variant, history)")
ASSUMPTIONS = [
    "variant 'scripted': a harness Defuzzifier subclass (the library's public extension point) returns the next values "
    "of the generated sequence as a 0-D array, a numpy.float64 (as the weighted defuzzifiers do) or a 1-D array, or "
    "raises RuntimeError on demand; variant 'engine': a one-input Takagi-Sugeno engine whose defuzzified value is the "
    "input value (NaN for NaN), driven through Engine.process() with float or array inputs",
    "values compared exactly (NaN-equal): the cascade only copies and clips",
]


class Scripted(fl.Defuzzifier):
    def __init__(self):
        self.next = None

    def defuzzify(self, term, minimum, maximum):
        nxt = self.next
        if nxt is None or nxt[0] == "fail":
            raise RuntimeError("scripted defuzzifier failure")
        kind, vals = nxt
        if kind == "0d":
            return np.array(float(vals[0]))
        if kind == "f64":
            return np.float64(vals[0])
        return np.array([float(v) for v in vals])


def model_step(setting, held, vals):
    out = []
    for v in vals:
        if math.isnan(v) and setting["lock_previous"]:
            v = held
        if math.isnan(v) and not math.isnan(setting["default"]):
            v = setting["default"]
        if setting["lock_range"] and not math.isnan(v):
            v = min(max(v, setting["min"]), setting["max"])
        out.append(v)
        held = v
    return out, held


def same(a, b):
    return (math.isnan(a) and math.isnan(b)) or a == b


def fvec(x):
    return [float(v) for v in np.asarray(x, dtype=float).reshape(-1)]


def mk_var(setting):
    return fl.OutputVariable(name="Y", minimum=setting["min"], maximum=setting["max"],
                             lock_range=setting["lock_range"], lock_previous=setting["lock_previous"],
                             default_value=setting["default"], aggregation=None, defuzzifier=Scripted(),
                             terms=[fl.Constant("t", 1.0)])


def mk_engine(setting):
    spec = {"name": "E",
            "inputs": [{"name": "A", "enabled": True, "min": -1e6, "max": 1e6, "lock_range": False,
                        "terms": [{"cls": "Triangle", "p": [0.0, 1.0, 2.0], "h": 1.0, "name": "a"}]}],
            "outputs": [{"name": "Y", "enabled": True, "min": setting["min"], "max": setting["max"],
                         "lock_range": setting["lock_range"], "lock_previous": setting["lock_previous"],
                         "default": setting["default"], "aggregation": None,
                         "defuzzifier": {"cls": "WeightedAverage", "type": "TakagiSugeno"},
                         "terms": [{"cls": "Linear", "p": [1.0, 0.0], "h": 1.0, "name": "t"}]}],
            "blocks": [{"name": "rb", "enabled": True, "conjunction": None, "disjunction": None, "implication": None,
                        "activation": {"cls": "General"},
                        "rules": [{"ante": {"var": "A", "hedges": ["any"], "term": None},
                                   "cons": [{"var": "Y", "hedges": [], "term": "t"}], "weight": None}]}]}
    return build.mk_engine(spec)


def check_history(ctx, case) -> None:
    setting, variant, ops = case["setting"], case["variant"], case["ops"]
    if variant == "scripted":
        var = mk_var(setting)
        eng = None
    else:
        eng = mk_engine(setting)
        var = eng.output_variables[0]
    held = math.nan          # model: last value held
    m_value = [math.nan]     # model: current value (all rows)
    m_prev = math.nan        # model: recorded previous value
    enabled = True
    calls = 0
    valid_seen = nan_after_valid = fail_after_valid = False
    ctx.cls("variant:" + variant)
    ctx.cls(f"setting:lp={int(setting['lock_previous'])},lr={int(setting['lock_range'])},"
            f"default={'nan' if math.isnan(setting['default']) else 'in' if setting['min'] <= setting['default'] <= setting['max'] else 'out'}")
    for k, op in enumerate(ops):
        sub = dict(case, ops=ops[: k + 1])
        kind = op[0]
        fuzzy_before = list(var.fuzzy.terms)
        if kind in ("scalar", "batch"):
            vals = [float(v) for v in op[1]]
            if variant == "scripted":
                var.defuzzifier.next = (op[2] if kind == "scalar" else "1d", vals)
                var.fuzzy.terms.append(fl.Activated(var.terms[0], 1.0, None))
                var.defuzzify()
            else:
                eng.input_variables[0].value = vals[0] if kind == "scalar" else np.array(vals)
                eng.process()
            ctx.ev()
            if enabled:
                calls += 1
                m_prev = held
                m_value, held = model_step(setting, held, vals)
                if valid_seen and any(math.isnan(v) for v in vals):
                    nan_after_valid = True
                if any(not math.isnan(v) for v in m_value):
                    valid_seen = True
        elif kind == "fail":
            if variant != "scripted":
                continue
            var.defuzzifier.next = ("fail", None)
            raised = False
            try:
                var.defuzzify()
            except RuntimeError:
                raised = True
            ctx.ev()
            ctx.check(raised or not enabled, "failure-swallowed", sub)
            ctx.check(var.fuzzy.terms == fuzzy_before, "fuzzy-changed-by-failed-defuzzification", sub)
            if valid_seen and enabled:
                fail_after_valid = True
        elif kind == "clear":
            var.clear()
            held, m_value, m_prev = math.nan, [math.nan], math.nan
        elif kind == "restart":
            if eng is None:
                continue
            eng.restart()
            held, m_value, m_prev = math.nan, [math.nan], math.nan
        elif kind == "toggle":
            enabled = not enabled
            var.enabled = enabled
        got = fvec(var.value)
        ok = len(got) == len(m_value) and all(same(a, b) for a, b in zip(got, m_value))
        ctx.check(ok, "value", sub, {"op": op, "got": got, "model": m_value, "enabled": enabled})
        gp = fvec(var.previous_value)
        ctx.check(len(gp) == 1 and same(gp[0], m_prev), "previous-value", sub,
                  {"op": op, "got": gp, "model": m_prev, "enabled": enabled})
    if calls >= 2 and (nan_after_valid or fail_after_valid):
        ctx.nt(case, {"setting": setting, "variant": variant, "ops": ops, "final_value": m_value})
        if nan_after_valid:
            ctx.cls("nan_after_valid")
        if fail_after_valid:
            ctx.cls("failure_after_valid")
    # split metamorphic relation: the same values as one batch on a fresh variable
    if variant == "scripted" and all(o[0] in ("scalar", "batch") for o in ops) and ops:
        allv = [float(v) for o in ops for v in o[1]]
        v2 = mk_var(setting)
        v2.defuzzifier.next = ("1d", allv)
        v2.defuzzify()
        one = fvec(v2.value)
        v3 = mk_var(setting)
        seq = []
        for o in ops:
            v3.defuzzifier.next = (o[2] if o[0] == "scalar" else "1d", [float(x) for x in o[1]])
            v3.defuzzify()
            seq += fvec(v3.value)
        ctx.check(len(one) == len(seq) and all(same(a, b) for a, b in zip(one, seq)), "split-invariance", case,
                  {"one_batch": one, "split": seq})
        ctx.cls("split_relation_checked")


@st.composite
def cases(draw, maxlen=30):
    lo, hi = draw(st.sampled_from([(0.0, 1.0), (-2.5, 4.0), (10.0, 10.5), (0.0, 1.0), (0.0, math.inf), (-math.inf, 10.0)]))
    if math.isinf(lo) or math.isinf(hi):  # a range with one infinite bound still clips at the finite one
        flo, fhi = (lo, lo + 5.0) if math.isinf(hi) else (hi - 5.0, hi)
        inside = draw(st.sampled_from([flo + 1.0, fhi - 1.0]))
        outside = lo - 1.0 if math.isinf(hi) else hi + 3.0
        span = (flo, fhi)
    else:
        inside = lo + (hi - lo) * draw(st.sampled_from([0.0, 0.25, 0.5, 1.0]))
        outside = draw(st.sampled_from([lo - 1.0, hi + 3.0]))
        span = (lo, hi)
    setting = {"lock_previous": draw(st.booleans()), "lock_range": draw(st.booleans()),
               "default": draw(st.sampled_from([math.nan, inside, outside, math.nan, inside, outside, math.inf, -math.inf])),
               "min": lo, "max": hi}
    variant = draw(st.sampled_from(["scripted", "scripted", "engine"]))
    val = st.one_of(st.just(math.nan), st.just(math.nan), st.floats(*span),
                    st.sampled_from([span[0] - 0.5, span[1] + 0.5, span[0], span[1]]),
                    st.sampled_from([math.inf, -math.inf]))
    op = st.one_of(
        st.tuples(st.just("scalar"), st.lists(val, min_size=1, max_size=1), st.sampled_from(["0d", "f64"])).map(list),
        st.tuples(st.just("scalar"), st.lists(val, min_size=1, max_size=1), st.sampled_from(["0d", "f64"])).map(list),
        st.tuples(st.just("batch"), st.lists(val, min_size=1, max_size=6)).map(list),
        st.tuples(st.just("batch"), st.lists(val, min_size=1, max_size=6)).map(list),
        st.just(["fail"]), st.just(["clear"]), st.just(["restart"]), st.just(["toggle"]))
    ops = draw(st.lists(op, min_size=1, max_size=maxlen))
    return {"setting": setting, "variant": variant, "ops": ops}


def shard(ctx, shard, nshards, ex, maxlen):
    ctx.hyp("history", cases(maxlen), check_history, ex)


def run(ctx) -> None:
    import sys

    from vlib import runner

    mod = sys.modules[__name__]
    if ctx.tier == "quick":
        runner.run_sharded(ctx, mod, "shard", 8, ex=1500, maxlen=30)
    else:
        runner.run_sharded(ctx, mod, "shard", 16, ex=6000, maxlen=50)


def replay(ctx, prop, case) -> None:
    if prop == "history":
        ctx.direct(prop, check_history, [case])
