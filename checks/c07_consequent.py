"""C07 — Each conclusion of a triggered rule contributes exactly its own activation.

Oracle: a model of Rule.trigger written from the statement (one Activated per conclusion on an enabled variable of an
enabled rule; concluded term object; block implication; rule degree modified only by the conclusion's own hedges;
NaN/-inf -> 0, +inf -> 1) + the permutation metamorphic relation.
"""

from __future__ import annotations

import itertools
import math

import numpy as np
from hypothesis import strategies as st

import fuzzylite as fl
from vlib import build, gen, refengine, refmath

RULE = ("cases are (engine spec with 1-3 output variables, one rule with 1-3 conclusions with 0-2 hedges each, optional "
        "weight, enabled flags, implication operator, activation degree given directly (scalar or batch incl. 0, 1, NaN, "
        "+-inf) or produced by a real antecedent); non-trivial when the rule has >= 2 conclusions or >= 1 hedge with a "
        "degree strictly inside (0,1); distinct by (rule text, flags, degree)")
ASSUMPTIONS = [
    "degrees compared within 1e-12 + 4 ulp (hedge formulas are the ones decided by C05)",
    "open known finding KF-C07-hedge-leak: Consequent.modify re-assigns the degree inside its loop, so the hedges of an "
    "earlier conclusion (on an enabled variable) also modify later conclusions; a case is attributed to it only when "
    "every observed degree equals the cumulative-hedge model exactly; any other deviation is a violation",
]


def known_leak(label, case, detail):
    if label in ("conclusion-degree", "permutation") and isinstance(detail, dict) and detail.get("matches_leaky_model"):
        return "KF-C07-hedge-leak"
    return None


def setup_ctx(ctx):
    if any(k["id"] == "KF-C07-hedge-leak" for k in ctx.known):
        ctx.matchers.append(known_leak)


def close(a, b):
    a, b = float(a), float(b)
    if math.isnan(a) or math.isnan(b):
        return math.isnan(a) and math.isnan(b)
    return a == b or abs(a - b) <= 1e-12 + 4 * math.ulp(max(abs(a), abs(b)))


def run_impl(spec, degree, use_antecedent, row, history=None):
    eng = build.mk_engine(spec)
    rb = eng.rule_blocks[0]
    rule = rb.rules[0]
    # loading is idempotent: a rule that is loaded again (or re-texted and loaded) concludes exactly what its text says
    if history in ("reload", "reload2"):
        for _ in range(1 if history == "reload" else 2):
            rule.load(eng)
    elif history == "programmatic":
        # the conclusions are assembled through the public constructors, re-using one list object for the hedges
        hf = fl.settings.factory_manager.hedge
        r = spec["blocks"][0]["rules"][0]
        hs: list = []
        props = []
        for c in r["cons"]:
            hs.clear()
            hs.extend(hf.construct(h) for h in c["hedges"])
            v = eng.output_variable(c["var"])
            props.append(fl.Proposition(v, hs, v.term(c["term"])))
        hs.clear()
        rule.consequent.conclusions = props
    elif history == "retext":
        r = spec["blocks"][0]["rules"][0]
        alt = dict(r, cons=list(reversed(r["cons"])) + r["cons"][:1], weight=0.5 if r.get("weight") is None else None)
        rule.text = gen.rule_text(alt)
        rule.load(eng)
        rule.text = gen.rule_text(r)
        rule.load(eng)
        if not r.get("enabled", True):
            rule.enabled = False
    before = {v.name: list(v.fuzzy.terms) for v in eng.output_variables}
    if use_antecedent:
        for v, x in zip(eng.input_variables, row):
            v.value = float(x)
        rule.activate_with(rb.conjunction, rb.disjunction)
        deg = rule.activation_degree
    else:
        deg = np.array(degree, dtype=float) if isinstance(degree, list) else float(degree)
        rule.activation_degree = deg
    rule.trigger(rb.implication)
    return eng, rule, deg, before


def expected(spec, rule_spec, deg_scalar, leaky):
    ref = refengine.Ref(spec, leaky_consequent=leaky)
    fuzzy = {v["name"]: [] for v in spec["outputs"]}
    ref.trigger(rule_spec, deg_scalar, spec["blocks"][0], fuzzy)
    return fuzzy


def check_consequent(ctx, case) -> None:
    spec = case["spec"]
    block = spec["blocks"][0]
    r = block["rules"][0]
    text = gen.rule_text(r)
    eng, rule, deg, before = run_impl(spec, case.get("degree"), case.get("use_antecedent", False), case.get("row"),
                                        case.get("history"))
    ctx.ev()
    if case.get("history"):
        ctx.cls("history:" + case["history"])
    degs = [float(x) for x in np.atleast_1d(np.asarray(deg, dtype=float))]
    batch = np.ndim(deg) > 0 and np.size(deg) > 1
    ctx.cls("batch" if batch else "scalar")
    rb = eng.rule_blocks[0]
    # expected per row, documented and leaky models
    exp = [expected(spec, r, d, False) for d in degs]
    leak = [expected(spec, r, d, True) for d in degs]
    mismatch = None
    all_leaky = True
    for v in eng.output_variables:
        got = v.fuzzy.terms
        want0 = exp[0][v.name]
        if len(got) != len(want0):
            ctx.fail("contribution-count", case, {"text": text, "variable": v.name, "got": len(got), "want": len(want0),
                                                  "got_terms": [a.term.name for a in got]})
        for k, act in enumerate(got):
            tn = want0[k][0]
            ctx.check(isinstance(act, fl.Activated), "not-activated", case, {"type": type(act).__name__})
            ctx.check(act.term is v.term(tn), "concluded-term-identity", case,
                      {"text": text, "variable": v.name, "got": act.term.name, "want": tn})
            ctx.check(act.implication is rb.implication, "implication-identity", case,
                      {"text": text, "got": str(act.implication)})
            gd = [float(x) for x in np.atleast_1d(np.asarray(act.degree, dtype=float))]
            ctx.check(len(gd) == len(degs), "degree-shape", case, {"got": len(gd), "want": len(degs)})
            for i in range(len(degs)):
                if not close(gd[i], exp[i][v.name][k][1]):
                    if mismatch is None:
                        mismatch = {"text": text, "variable": v.name, "index": k, "row": i, "got": gd[i],
                                    "want": exp[i][v.name][k][1], "rule_degree": degs[i]}
                if not close(gd[i], leak[i][v.name][k][1]):
                    all_leaky = False
    if mismatch is not None:
        mismatch["matches_leaky_model"] = bool(all_leaky)
        ctx.fail("conclusion-degree", case, mismatch)
    # triggered flag
    want_trig = [bool(r.get("enabled", True) and d > 0.0) for d in degs]
    got_trig = [bool(x) for x in np.atleast_1d(rule.triggered)]
    ctx.check(got_trig == want_trig or (len(got_trig) == 1 and all(w == got_trig[0] for w in want_trig)),
              "triggered-flag", case, {"got": got_trig, "want": want_trig})
    # nothing else changes
    for v, vs in zip(eng.input_variables, spec["inputs"]):
        ctx.check(len(v.terms) == len(vs["terms"]), "input-variable-touched", case)
    hedged = any(c["hedges"] for c in r["cons"])
    if len(r["cons"]) >= 2 or (hedged and any(0.0 < d < 1.0 for d in degs)):
        ctx.nt([text, r.get("enabled", True), [v.get("enabled", True) for v in spec["outputs"]], degs,
                block["implication"]],
               {"rule": text, "rule_enabled": r.get("enabled", True), "degree": degs,
                "outputs_enabled": {v["name"]: v.get("enabled", True) for v in spec["outputs"]},
                "contributions": {v.name: [[a.term.name, enc_deg(a.degree)] for a in v.fuzzy.terms]
                                  for v in eng.output_variables}})
        ctx.cls(f"conclusions:{len(r['cons'])}")
        if hedged:
            ctx.cls("hedged")
    # permutation metamorphic relation (scalar degree, enabled rule)
    if len(r["cons"]) >= 2 and not batch and not case.get("use_antecedent"):
        base = multiset(eng)
        for perm in itertools.permutations(range(len(r["cons"]))):
            if list(perm) == list(range(len(r["cons"]))):
                continue
            r2 = dict(r, cons=[r["cons"][i] for i in perm])
            spec2 = dict(spec, blocks=[dict(block, rules=[r2])])
            eng2, _, _, _ = run_impl(spec2, case.get("degree"), False, None)
            m2 = multiset(eng2)
            if m2 != base:
                lk = lambda rr: sorted((v, t, round_key(d)) for v, lst in  # noqa: E731
                                       expected(spec, rr, degs[0], True).items() for (t, d, _i) in lst)
                ctx.fail("permutation", case, {"text": text, "perm": list(perm), "base": base, "permuted": m2,
                                               "matches_leaky_model": bool(base == lk(r) and m2 == lk(r2))})
        ctx.cls("permutations_checked")


def enc_deg(d):
    a = np.atleast_1d(np.asarray(d, dtype=float))
    return [float(x) for x in a]


def round_key(d):
    d = float(d)
    return "nan" if math.isnan(d) else float(f"{d:.12g}")


def multiset(eng):
    return sorted((v.name, a.term.name, round_key(np.asarray(a.degree).reshape(-1)[0]))
                  for v in eng.output_variables for a in v.fuzzy.terms)


SPECIAL = [0.0, 1.0, math.nan, math.inf, -math.inf, 0.5, 0.25]


@st.composite
def cases(draw):
    rg = draw(st.sampled_from(["dec", "dy"]))
    no = draw(st.integers(1, 3))
    onames = draw(st.permutations(gen.OUT_NAMES))[:no]
    outputs = []
    for nm in onames:
        o = draw(gen.output_variable(nm, rg, "mamdani", 1, nterms=(1, 3), flags=False))
        o["enabled"] = draw(st.sampled_from([True, True, True, False]))
        outputs.append(o)
    inp = draw(gen.input_variable("A", rg, nterms=(1, 2), flags=False))
    ivars = [("A", [t["name"] for t in inp["terms"]])]
    ovars = [(v["name"], [t["name"] for t in v["terms"]]) for v in outputs]
    r = draw(gen.rule(ivars, ovars, depth=1, cons_hedges=2, max_conc=3))
    r["enabled"] = draw(st.sampled_from([True, True, True, False]))
    block = {"name": "rb", "enabled": True, "conjunction": "Minimum", "disjunction": "Maximum",
             "implication": draw(st.sampled_from(refmath.TNORMS)), "activation": {"cls": "General"}, "rules": [r]}
    spec = {"name": "E", "inputs": [inp], "outputs": outputs, "blocks": [block]}
    deg = st.one_of(gen.unit_degree(), st.sampled_from(SPECIAL))
    k = draw(st.integers(0, 5))
    hist = draw(st.sampled_from([None, None, None, "reload", "reload2", "retext", "programmatic"]))
    if k == 0:
        return {"spec": spec, "use_antecedent": True, "row": draw(gen.input_row(spec)), "degree": None, "history": hist}
    if k == 1:
        degs = draw(st.lists(deg, min_size=2, max_size=5))
        if draw(st.booleans()):  # a NaN row inside the batch ...
            degs[draw(st.integers(0, len(degs) - 1))] = math.nan
            if len(r["cons"]) >= 2 and draw(st.booleans()):  # ... and a later conclusion under `not`
                r["cons"][-1]["hedges"] = ["not"]
                r["cons"][0]["hedges"] = []
        return {"spec": spec, "degree": degs, "history": hist}
    return {"spec": spec, "degree": draw(deg), "history": hist}


def shard(ctx, shard, nshards, ex):
    ctx.hyp("consequent", cases(), check_consequent, ex)


def run(ctx) -> None:
    import sys

    from vlib import runner

    mod = sys.modules[__name__]
    if ctx.tier == "quick":
        runner.run_sharded(ctx, mod, "shard", 8, ex=500)
    else:
        runner.run_sharded(ctx, mod, "shard", 16, ex=8000)


def replay(ctx, prop, case) -> None:
    if prop == "consequent":
        ctx.direct(prop, check_consequent, [case])
