"""C20 — Temporary settings are always restored.

Oracle: an interpreter over a model dict of the 7 settings: entering a context snapshots the *named* keys and sets
them; leaving (normally or by exception) restores exactly those; direct assignments to unnamed keys persist.
Programs are generated recursively: with / assign / raise / try / observe; a context is left normally, by an
Exception, by a BaseException that is not an Exception, or by GeneratorExit; a context object is entered by `with` or
used as a function decorator whose calls nest (the same object entered while it is entered).
"""

from __future__ import annotations

import itertools
import logging

import numpy as np
from hypothesis import strategies as st

import fuzzylite as fl

RULE = ("cases are programs over settings contexts (with{subset->values} body | assign | raise | try body | observe), "
        "raise = Exception | BaseException subclass | GeneratorExit; with = with-statement | decorator re-entered 0-2 times; "
        "nesting depth <= 4; non-trivial when nesting depth >= 2 or an exception crosses a context boundary; distinct by "
        "program. The depth-2 single-setting sub-space (7x7 setting pairs x {normal, exception in the inner body, "
        "exception between the two exits}) is enumerated completely")
ASSUMPTIONS = [
    "settings values are never None (a context cannot express 'set to None'; documented signature)",
    "loggers and factory managers are fresh objects per case, compared by identity; float type by identity",
    "the harness restores the pristine settings after every case",
]

KEYS = ["float_type", "decimals", "atol", "rtol", "alias", "logger", "factory_manager"]
ATTR = {"factory_manager": "_factory_manager"}
VALUES = {
    "float_type": ["f64", "f32", "f16"],
    "decimals": [0, 1, 3, 6, 9, 12],
    "atol": [0.0, 1e-3, 1e-6, 0.5],
    "rtol": [0.0, 1e-5, 0.25],
    "alias": ["fl", "", "*", "fuzzy"],
    "logger": [0, 1, 2],
    "factory_manager": [0, 1, 2],
}
FT = {"f64": np.float64, "f32": np.float32, "f16": np.float16}


class Boom(Exception):
    pass


class BoomBase(BaseException):
    """An exit that is not an `Exception` (the class of KeyboardInterrupt, SystemExit, asyncio.CancelledError, the
    outcome exceptions of test runners); a context is "left by an exception" through these just as well."""


BOOMS = (Boom, BoomBase, GeneratorExit)
RAISE = {"exception": Boom, "base": BoomBase, "generator-exit": GeneratorExit}


class World:
    def __init__(self):
        self.loggers = [logging.getLogger(f"verif.c20.{i}") for i in range(3)]
        self.fms = [fl.FactoryManager() for _ in range(3)]

    def value(self, key, v):
        if key == "float_type":
            return FT[v]
        if key == "logger":
            return self.loggers[v]
        if key == "factory_manager":
            return self.fms[v]
        return v


def depth_of(prog, d=0):
    m = d
    for s in prog:
        if s[0] == "with":
            m = max(m, depth_of(s[2], d + 1))
        elif s[0] == "try":
            m = max(m, depth_of(s[1], d))
    return m


def check_program(ctx, case) -> None:
    prog = case["program"]
    w = World()
    # the program runs on the library-wide settings object, or on a second fl.Settings instance (then the library-wide
    # object must stay untouched and the helpers keep following it)
    S = fl.settings if case.get("target", "global") == "global" else fl.Settings()
    model = {k: vars(S)[ATTR.get(k, k)] for k in KEYS}
    pristine = {k: vars(fl.settings)[ATTR.get(k, k)] for k in KEYS}
    crossed = [False]
    if S is not fl.settings:
        ctx.cls("second_settings_instance")

    def compare(where):
        if S is not fl.settings:
            for k in KEYS:
                got, want = vars(fl.settings)[ATTR.get(k, k)], pristine[k]
                if not ((got is want) if k in ("float_type", "logger", "factory_manager") else got == want):
                    ctx.fail("library-wide-setting-touched:" + k, case, {"where": where, "got": repr(got)[:80],
                                                                         "expected": repr(want)[:80]})
        cur = vars(S)
        for k in KEYS:
            got, want = cur[ATTR.get(k, k)], model[k]
            same = (got is want) if k in ("float_type", "logger", "factory_manager") else (got == want and type(got) is type(want))
            if not same:
                ctx.fail("setting:" + k, case, {"where": where, "got": repr(got)[:80], "model": repr(want)[:80]})
        extra = set(cur) - {ATTR.get(k, k) for k in KEYS}
        ctx.check(not extra, "unknown-setting-attribute", case, {"extra": sorted(extra)})

    def observe(where):
        compare(where)
        if S is not fl.settings:
            ctx.ev()
            return  # the helpers read the library-wide object, which compare() has just found untouched
        d = model["decimals"]
        ctx.check(fl.Op.str(1 / 3) == f"{1 / 3:.{d}f}", "helper:Op.str", case,
                  {"where": where, "got": fl.Op.str(1 / 3), "decimals": d})
        want_close = bool(np.isclose(1.0, 1.0 + 1e-4, atol=model["atol"], rtol=model["rtol"]))
        ctx.check(bool(fl.Op.is_close(1.0, 1.0 + 1e-4)) == want_close, "helper:is_close", case,
                  {"where": where, "atol": model["atol"], "rtol": model["rtol"]})
        ctx.check(fl.scalar(1).dtype == np.dtype(model["float_type"]), "helper:scalar-dtype", case,
                  {"where": where, "got": str(fl.scalar(1).dtype)})
        a = model["alias"]
        want_imp = "import fuzzylite" if not a else "from fuzzylite import *" if a == "*" else f"import fuzzylite as {a}"
        ctx.check(fl.representation.import_statement() == want_imp, "helper:import_statement", case,
                  {"where": where, "got": fl.representation.import_statement(), "alias": a})
        ctx.ev()

    def run(stmts, path):
        for i, s in enumerate(stmts):
            here = f"{path}/{i}:{s[0]}"
            if s[0] == "observe":
                observe(here)
            elif s[0] == "assign":
                val = w.value(s[1], s[2])
                setattr(S, s[1], val)
                model[s[1]] = val
            elif s[0] == "raise":
                raise RAISE[s[1] if len(s) > 1 else "exception"](here)
            elif s[0] == "try":
                try:
                    run(s[1], here)
                except BOOMS:
                    pass
                compare(here + ":after-try")
            elif s[0] == "with":
                named = {k: w.value(k, v) for k, v in s[1].items()}
                cm = S.context(**named)  # the context object may be created some time before it is entered
                for a in (s[3] if len(s) > 3 else []):
                    val = w.value(a[1], a[2])
                    setattr(S, a[1], val)
                    model[a[1]] = val
                how = s[4] if len(s) > 4 else {"how": "with"}
                if how["how"] == "with":
                    snapshot = {k: model[k] for k in named}  # "previous value" = the value when the context is entered
                    try:
                        with cm:
                            model.update(named)
                            compare(here + ":entered")
                            try:
                                run(s[2], here)
                            except BOOMS:
                                crossed[0] = True
                                raise
                    finally:
                        model.update(snapshot)
                        compare(here + ":exited")
                else:
                    # the context object used as a function decorator (it comes from contextlib.contextmanager, which
                    # documents this use and re-creates the context for every call); the decorated function calls
                    # itself `depth` times before running the body, so the same object is entered while it is entered:
                    # each call is a context of its own, with the values held at *that* entry as its previous values
                    ctx.cls("decorator")

                    def inner(depth, s=s, here=here, named=named):
                        model.update(named)
                        compare(here + f":entered@{depth}")
                        try:
                            if depth > 0:
                                call(depth - 1)
                            else:
                                run(s[2], here)
                        except BOOMS:
                            crossed[0] = True
                            raise

                    decorated = cm(inner)

                    def call(depth, named=named, here=here):
                        snapshot = {k: model[k] for k in named}
                        try:
                            decorated(depth)
                        finally:
                            model.update(snapshot)
                            compare(here + f":exited@{depth}")

                    if how["depth"] > 0:
                        ctx.cls("decorator_reentered")
                    call(how["depth"])
                    if how.get("again"):  # a later, separate call of the same decorated function
                        call(0)

    try:
        run(prog, "")
    except BOOMS:
        pass
    compare("end")
    ctx.ev()
    if depth_of(prog) >= 2 or crossed[0]:
        ctx.nt(prog, {"program": prog})
        if crossed[0]:
            ctx.cls("exception_crossed_context")
    ctx.cls(f"depth:{depth_of(prog)}")


def setting_value():
    return st.sampled_from(KEYS).flatmap(lambda k: st.tuples(st.just(k), st.sampled_from(VALUES[k])))


@st.composite
def programs(draw, depth=4):
    def body(d, n):
        out = []
        for _ in range(draw(st.integers(0, n))):
            k = draw(st.sampled_from(["observe", "assign", "assign", "raise", "try", "with", "with", "with"]))
            if k == "observe":
                out.append(["observe"])
            elif k == "assign":
                key, v = draw(setting_value())
                out.append(["assign", key, v])
            elif k == "raise":
                if draw(st.integers(0, 2)) == 0:
                    kind = draw(st.sampled_from(["exception", "exception", "base", "generator-exit"]))
                    out.append(["raise"] if kind == "exception" else ["raise", kind])
            elif k == "try" and d > 0:
                out.append(["try", body(d, 3)])
            elif k == "with" and d > 0:
                keys = draw(st.lists(st.sampled_from(KEYS), min_size=1, max_size=4, unique=True))
                named = {key: draw(st.sampled_from(VALUES[key])) for key in keys}
                between = []
                if draw(st.integers(0, 3)) == 0:  # assignments between creating the context object and entering it
                    for _ in range(draw(st.integers(1, 2))):
                        kk = draw(st.sampled_from(keys + KEYS[:2]))
                        between.append(["assign", kk, draw(st.sampled_from(VALUES[kk]))])
                stmt = ["with", named, body(d - 1, 3)] + ([between] if between else [])
                if draw(st.integers(0, 4)) == 0:
                    stmt = stmt[:3] + [between, {"how": "decorator", "depth": draw(st.integers(0, 2)),
                                                 "again": draw(st.booleans())}]
                out.append(stmt)
        return out

    return {"program": body(depth, 4) + [["observe"]], "target": draw(st.sampled_from(["global", "global", "instance"]))}


def exhaustive(ctx):
    progs = []
    for k1, k2 in itertools.product(KEYS, KEYS):
        v1, v2 = VALUES[k1][1], VALUES[k2][-1]
        for mode in ("normal", "raise-inner", "raise-outer"):
            for kind in (("exception",) if mode == "normal" else ("exception", "base", "generator-exit")):
                inner = [["observe"]] + ([["raise", kind]] if mode == "raise-inner" else [])
                outer = [["with", {k2: v2}, inner], ["observe"]] + ([["raise", kind]] if mode == "raise-outer" else [])
                progs.append({"program": [["try", [["with", {k1: v1}, outer]]], ["observe"]]})
        if k1 == k2:  # one context object used as a decorator and entered again while it is entered
            for depth in (1, 2):
                for kind in (None, "exception", "base"):
                    inner = [["assign", k1, VALUES[k1][2]], ["observe"]] + ([["raise", kind]] if kind else [])
                    progs.append({"program": [["try", [["with", {k1: v1}, inner, [],
                                                        {"how": "decorator", "depth": depth, "again": True}]]],
                                              ["observe"]]})
    ctx.direct("program", check_program, progs)
    ctx.exhaustive_parts.append("all 7x7 pairs of settings in two nested single-setting contexts x {normal exit, "
                                "Exception / BaseException subclass / GeneratorExit raised in the inner body, or between the two "
                                "exits}; each setting in a context object used as a decorator and re-entered 1 or 2 "
                                "times while entered x {normal, Exception, BaseException}")


def shard(ctx, shard, nshards, ex):
    ctx.hyp("program", programs(), check_program, ex)


def run(ctx) -> None:
    import sys

    from vlib import runner

    exhaustive(ctx)
    mod = sys.modules[__name__]
    if ctx.tier == "quick":
        runner.run_sharded(ctx, mod, "shard", 4, ex=600)
    else:
        runner.run_sharded(ctx, mod, "shard", 16, ex=10000)


def replay(ctx, prop, case) -> None:
    if prop == "program":
        ctx.direct(prop, check_program, [case])
