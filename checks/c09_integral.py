"""C09 — Integral defuzzifiers return the defined point of the sampled fuzzy set.

Oracle: the fuzzy set is *given* as the vector y of Aggregated.membership at the r midpoints (evaluated one point at a
time with scalar degrees); on (x, y) the reference computes the five defuzzifiers from the statement; laws: range,
SOM<=MOM<=LOM, NaN iff empty, translation of the centroid, batch == per-set.
"""

from __future__ import annotations

import math

import numpy as np
from hypothesis import strategies as st

import fuzzylite as fl
from vlib import build, gen, refengine, refmath

RULE = ("cases are (range, resolution, aggregation, 0-5 activated shape terms with implication and degree, scalar or "
        "batch degrees); non-trivial when the sampled membership is positive at >= 2 sample points and not constant; "
        "distinct by the whole case. Resolutions 1..1000 (small favoured, 1000 included), ranges arbitrary finite")
ASSUMPTIONS = [
    "the sampled set y_i is obtained from the library's Aggregated.membership evaluated one midpoint at a time with "
    "scalar degrees (membership/norm correctness is C03/C04's subject)",
    "Centroid compared within 1e-9*(max(|min|,|max|)+width); Bisector/SOM/MOM/LOM compared within 1e-12 relative; if "
    "that fails and the reference's arg-max / arg-min set has members within 1e-9 that are not exact ties the looser "
    "bound 'result lies between the extreme members of the loose tie set' applies (counted as tie_fallback)",
    "translation relation is asserted on the dyadic regime with power-of-two resolutions, where the translated sample "
    "points are exact",
    "sets whose largest sampled membership is below 1e-290 (subnormal products x*mu carry no significant bits) are "
    "checked for NaN <=> empty only",
]

DEFUZZ = ["Bisector", "Centroid", "LargestOfMaximum", "MeanOfMaximum", "SmallestOfMaximum"]


def mk_set(case, row=None, shift=0.0):
    lo, hi = case["min"] + shift, case["max"] + shift
    acts = []
    shared = {}  # activations of an identical term share one Term object (as two rule blocks writing one term do)
    for a in case["acts"]:
        d = a["degree"]
        if isinstance(d, list):
            d = np.array(d, dtype=float) if row is None else float(d[row])
        term = refmath.translate(a["term"], shift) if shift else a["term"]
        key = repr(sorted(term.items(), key=lambda kv: kv[0]))
        if key not in shared:
            shared[key] = build.mk_term(term)
        acts.append(fl.Activated(shared[key], d, build.mk_norm(a["implication"], "t")))
    # the range integrated over is the one passed to defuzzify(); the Aggregated object's own minimum / maximum
    # attributes (NaN by default) do not restrict its membership function
    own = case.get("own_bounds")
    w = hi - lo
    alo, ahi = {None: (lo, hi), "nan": (math.nan, math.nan), "narrow": (lo + 0.25 * w, hi - 0.25 * w),
                "wide": (lo - w, hi + w)}[own]
    return fl.Aggregated("Y", alo, ahi, build.mk_norm(case["aggregation"], "s"), acts), lo, hi


def midpoints(lo, hi, r):
    dx = (hi - lo) / r
    return [lo + (i + 0.5) * dx for i in range(r)]


def reference(agg, lo, hi, r, ctx=None, case=None, row=None):
    """Sample the aggregated set one point at a time. When `case` is given, each sampled value is also checked against
    an independent fold of the documented definition: S-norm over implication(degree, term membership) (reference
    norms of vlib/refmath.py; the term memberships themselves are C03's subject)."""
    xs = midpoints(lo, hi, r)
    ys = [float(agg.membership(x)) for x in xs]
    if case is not None and case["acts"] and len(xs) <= 128:
        terms = [build.mk_term(a["term"]) for a in case["acts"]]
        for x, y in zip(xs, ys):
            want, fragile = 0.0, False
            for a, t in zip(case["acts"], terms):
                d = a["degree"]
                d = float(d[row]) if isinstance(d, list) else float(d)
                m = float(t.membership(x))
                fragile = fragile or refmath.norm_margin(a["implication"], d, m) < 1e-9
                v = refmath.norm(a["implication"], d, m)
                fragile = fragile or refmath.norm_margin(case["aggregation"], want, v) < 1e-9
                want = refmath.norm(case["aggregation"], want, v)
            if fragile:
                ctx.cls("aggregated_point_fragile")
                continue
            if not (abs(y - want) <= 1e-12 * max(1.0, abs(want)) or (math.isnan(y) and math.isnan(want))):
                ctx.fail("aggregated-membership", dict(case, row=row), {"x": x, "got": y, "want": want})
        ctx.cls("aggregated_points_verified", len(xs))
    return xs, ys


def agree(ctx, cls, got, xs, ys, lo, hi, agg):
    """Compare the implementation's result `got` with the reference on (xs, ys). Returns None or a failure detail."""
    want, info = refengine.integral(cls, xs, ys)
    if math.isnan(want) or math.isnan(got):
        return None if (math.isnan(want) and math.isnan(got)) else {"got": got, "want": want}
    scale = max(abs(lo), abs(hi)) + (hi - lo)
    if cls == "Centroid":
        return None if abs(got - want) <= 1e-9 * scale else {"got": got, "want": want}
    if abs(got - want) <= 1e-12 * scale:
        return None
    loose = info.get("loose")
    vec = np.asarray(agg.membership(np.array(xs)), dtype=float).reshape(-1)
    inexact = any(a != b for a, b in zip(vec, ys))
    if loose and (info.get("tie") or inexact) and loose[0] - 1e-12 * scale <= got <= loose[1] + 1e-12 * scale:
        ctx.cls("tie_fallback")
        return None
    return {"got": got, "want": want, "loose": loose, "tie": info.get("tie"), "vectorised_differs": inexact}


def check_set(ctx, case) -> None:
    r = int(case["resolution"])
    batch = any(isinstance(a["degree"], list) for a in case["acts"])
    nrows = max([len(a["degree"]) for a in case["acts"] if isinstance(a["degree"], list)] or [1])
    agg, lo, hi = mk_set(case)
    results = {}
    for cls in DEFUZZ:
        if case.get("warm_resolution"):
            # the same defuzzifier object first served this range at another resolution (a defuzzifier keeps no state)
            dz = getattr(fl, cls)(int(case["warm_resolution"]))
            dz.defuzzify(agg, lo, hi)
            if case.get("warm_via") == "configure":
                dz.configure(str(r))
            else:
                dz.resolution = r
            z = dz.defuzzify(agg, lo, hi)
        else:
            z = getattr(fl, cls)(r).defuzzify(agg, lo, hi)
        z = np.asarray(z, dtype=float)
        ctx.check(z.size == nrows, "result-shape", case, {"defuzzifier": cls, "shape": list(z.shape), "rows": nrows})
        results[cls] = [float(v) for v in z.reshape(-1)]
    nontrivial = False
    for row in range(nrows):
        agg_r, _, _ = mk_set(case, row=row if batch else None) if batch else (agg, lo, hi)
        xs, ys = reference(agg_r, lo, hi, r, ctx, case, row if batch else None)
        ctx.ev()
        empty = all(y == 0.0 for y in ys)
        denormal = (not empty) and max(ys) < 1e-290
        for cls in DEFUZZ:
            got = results[cls][row]
            sub = dict(case, only=cls, row=row)
            ctx.check(math.isnan(got) == empty, "nan-iff-empty", sub, {"defuzzifier": cls, "got": got, "empty": empty})
            if denormal:
                # memberships in the subnormal range (eg 5e-324): the products x*mu have no significant bits left, so
                # no floating-point centroid can be accurate there; only NaN <=> empty is asserted (counted)
                ctx.cls("subnormal_membership_skipped")
                continue
            if not math.isnan(got):
                ctx.check(lo <= got <= hi, "result-in-range", sub, {"defuzzifier": cls, "got": got})
            bad = agree(ctx, cls, got, xs, ys, lo, hi, agg_r)
            if bad is not None:
                ctx.fail("value:" + cls, sub, bad)
        s, m, l = (results[c][row] for c in ("SmallestOfMaximum", "MeanOfMaximum", "LargestOfMaximum"))
        if not math.isnan(s) and not denormal:
            ctx.check(s <= m <= l, "som<=mom<=lom", dict(case, row=row), {"som": s, "mom": m, "lom": l})
        pos = [y for y in ys if y > 0.0]
        if len(pos) >= 2 and len(set(ys)) > 1:
            nontrivial = True
            mx = max(ys)
            if sum(1 for y in ys if y == mx) > 1:
                ctx.cls("plateau_or_multimax")
        if empty:
            ctx.cls("empty_set")
    ctx.cls("batch" if batch else "scalar")
    ctx.cls(f"res:{'1' if r == 1 else '2-10' if r <= 10 else '11-100' if r <= 100 else '101-1000'}")
    if nontrivial:
        ctx.nt(case, {"case": case, "results": results})
    # translation (dyadic regime, power-of-two resolution, scalar degrees)
    c = case.get("shift")
    if c and not batch:
        agg2, lo2, hi2 = mk_set(case, shift=c)
        z1 = float(fl.Centroid(r).defuzzify(agg, lo, hi))
        z2 = float(fl.Centroid(r).defuzzify(agg2, lo2, hi2))
        if not (math.isnan(z1) and math.isnan(z2)):
            tol = 1e-9 * ((hi - lo) + abs(c) + max(abs(lo), abs(hi)))
            ctx.check(abs((z2 - z1) - c) <= tol, "centroid-translation", case, {"z": z1, "z_shifted": z2, "c": c})
        ctx.cls("translation_checked")


POW2 = [1, 2, 4, 8, 16, 64, 128, 256]


@st.composite
def cases(draw):
    rg = draw(gen.regime())
    translate = rg == "dy" and draw(st.booleans())
    n = draw(st.sampled_from([0, 1, 1, 2, 2, 3, 4, 5]))
    names = draw(st.permutations(gen.TERM_NAMES))[:max(n, 1)]
    planted = draw(st.integers(0, 4)) == 0
    terms = []
    for i in range(n):
        cls = draw(st.sampled_from(["Trapezoid", "Triangle", "Rectangle"])) if planted else None
        terms.append(draw(gen.shape_term(cls=cls, rg=rg, name=names[i])))
    if terms:
        lo, hi = draw(gen.variable_range(terms, rg))
    else:
        lo, hi = draw(gen.increasing(rg, 2))
    batch = not translate and draw(st.integers(0, 3)) == 0
    m = draw(st.integers(2, 6)) if batch else 1
    deg = gen.unit_degree()
    acts = []
    for t in terms:
        if any(not math.isfinite(v) for v in t["p"]) and translate:
            translate = False
        d = draw(st.lists(deg, min_size=m, max_size=m)) if batch else draw(deg)
        acts.append({"term": t, "degree": d, "implication": draw(st.sampled_from(refmath.TNORMS))})
    if translate:
        r = draw(st.sampled_from(POW2))
    else:
        r = draw(st.one_of(st.sampled_from([1, 2, 3, 5, 10, 17, 64, 100, 1000]), st.integers(1, 40),
                           st.integers(1, 1000)))
    if acts and not translate and draw(st.integers(0, 4)) == 0:
        # a second term with the same name and class whose parameters differ only from the 4th decimal on
        a0 = draw(st.sampled_from(acts))
        if a0["term"]["cls"] != "Discrete" and all(math.isfinite(v) for v in a0["term"]["p"]):
            twin = refmath.translate(a0["term"], draw(st.sampled_from([0.0004, 0.0002, -0.0003])))
            acts.append({"term": twin, "degree": draw(st.lists(deg, min_size=m, max_size=m)) if batch else draw(deg),
                         "implication": a0["implication"]})
    if acts and draw(st.integers(0, 4)) == 0:
        # the same term activated again (same Term object) with another implication operator and degree
        a0 = draw(st.sampled_from(acts))
        acts.append({"term": a0["term"], "degree": draw(st.lists(deg, min_size=m, max_size=m)) if batch else draw(deg),
                     "implication": draw(st.sampled_from(refmath.TNORMS))})
    if draw(st.integers(0, 7)) == 0:
        # a first activation that is exactly 1 at every sample point (a rectangle wider than the range at degree 1)
        full = {"cls": "Rectangle", "p": [lo - 1.0, hi + 1.0], "h": 1.0, "name": "full", "rg": "free"}
        acts.insert(0, {"term": full, "degree": [1.0] * m if batch else 1.0, "implication": "Minimum"})
    case = {"min": lo, "max": hi, "resolution": r, "aggregation": draw(st.sampled_from(refmath.SNORMS)), "acts": acts}
    case["own_bounds"] = draw(st.sampled_from([None, None, None, "nan", "narrow", "wide"]))
    if draw(st.integers(0, 3)) == 0:
        case["warm_resolution"] = draw(st.sampled_from([1, 2, 7, 50, 100]))
        case["warm_via"] = draw(st.sampled_from(["attribute", "configure"]))
    if translate:
        case["shift"] = draw(st.integers(-640, 640).filter(lambda k: k != 0)) / 64
    return case


def integer_range_corpus():
    """Every range [a, b] with integer bounds in -3..3 at resolutions 1, 2, 10, one after the other in one process
    (a fixed triangle spanning the range, clipped): the sample points belong to the range at hand."""
    out = []
    for r in (1, 2, 10):
        for a in range(-3, 4):
            for b in range(a + 1, 4):
                t = {"cls": "Triangle", "p": [float(a), a + 0.25 * (b - a), float(b)], "h": 1.0, "name": "t"}
                out.append({"min": float(a), "max": float(b), "resolution": r, "aggregation": "Maximum",
                            "acts": [{"term": t, "degree": 0.75, "implication": "Minimum"}]})
    return out


def shard(ctx, shard, nshards, ex):
    if shard <= 1:
        ctx.direct("set", check_set, integer_range_corpus())
        ctx.cls("integer_range_corpus", 63)
    ctx.hyp("set", cases(), check_set, ex)


def run(ctx) -> None:
    import sys

    from vlib import runner

    mod = sys.modules[__name__]
    if ctx.tier == "quick":
        runner.run_sharded(ctx, mod, "shard", 8, ex=200)
    else:
        runner.run_sharded(ctx, mod, "shard", 16, ex=6000)


def replay(ctx, prop, case) -> None:
    if prop == "set":
        case = {k: v for k, v in case.items() if k not in ("only", "row")}
        ctx.direct(prop, check_set, [case])
