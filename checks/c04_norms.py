"""C04 — T-norms and S-norms compute their formulas and obey the norm laws.

Oracle: formulas of the class docstrings in exact rational arithmetic (fractions.Fraction of the
given doubles); laws of the statement asserted on the implementation's own outputs.
"""

from __future__ import annotations

import math
from fractions import Fraction as F

import numpy as np
from hypothesis import strategies as st

import fuzzylite as fl

RULE = ("cases are (norm, list of (a,b) pairs or (a,b,c) triples); non-trivial when a and b (and c) lie strictly "
        "inside (0,1); distinct by (norm, point). Grids k/64 (pairs) and k/16 (quick) or k/32 (thorough) (triples) are "
        "enumerated completely, each grid point distinct by construction; random cases: Hypothesis doubles in [0,1] "
        "incl. 0, 1, neighbours of 1, and pairs with a+b next to 1")
ASSUMPTIONS = [
    "norms are constructed through TNormFactory/SNormFactory; the registered sets must be exactly the 7 + 9 documented",
    "formula tolerance: exact for +,-,*,min,max norms on the dyadic grid, 1e-12 absolute for the quotient norms "
    "(Einstein, Hamacher, NormalizedSum) and for random doubles",
    "fragile rule: for Nilpotent* on random doubles with |a+b-1| < 1e-9 either branch value is admissible (the "
    "documented condition is on the real-number sum, the code tests the rounded sum)",
    "laws on random doubles use 1e-12 absolute slack (identity/bounds are 1 ulp off in floating point, e.g. (a+1)-1)",
]

TNORMS = ["AlgebraicProduct", "BoundedDifference", "DrasticProduct", "EinsteinProduct", "HamacherProduct", "Minimum",
          "NilpotentMinimum"]
SNORMS = ["AlgebraicSum", "BoundedSum", "DrasticSum", "EinsteinSum", "HamacherSum", "Maximum", "NilpotentMaximum",
          "NormalizedSum", "UnboundedSum"]
DUAL = {"AlgebraicProduct": "AlgebraicSum", "BoundedDifference": "BoundedSum", "DrasticProduct": "DrasticSum",
        "EinsteinProduct": "EinsteinSum", "HamacherProduct": "HamacherSum", "Minimum": "Maximum",
        "NilpotentMinimum": "NilpotentMaximum"}
QUOTIENT = {"EinsteinProduct", "HamacherProduct", "EinsteinSum", "HamacherSum", "NormalizedSum"}
FRAGILE = {"NilpotentMinimum", "NilpotentMaximum"}
NONASSOC = {"NormalizedSum"}


def ref(name: str, a: F, b: F) -> F:
    if name == "AlgebraicProduct":
        return a * b
    if name == "BoundedDifference":
        return max(F(0), a + b - 1)
    if name == "DrasticProduct":
        return min(a, b) if max(a, b) == 1 else F(0)
    if name == "EinsteinProduct":
        return a * b / (2 - (a + b - a * b))
    if name == "HamacherProduct":
        return a * b / (a + b - a * b) if a + b != 0 else F(0)
    if name == "Minimum":
        return min(a, b)
    if name == "NilpotentMinimum":
        return min(a, b) if a + b > 1 else F(0)
    if name == "AlgebraicSum":
        return a + b - a * b
    if name == "BoundedSum":
        return min(F(1), a + b)
    if name == "DrasticSum":
        return max(a, b) if min(a, b) == 0 else F(1)
    if name == "EinsteinSum":
        return (a + b) / (1 + a * b)
    if name == "HamacherSum":
        return (a + b - 2 * a * b) / (1 - a * b) if a * b != 1 else F(1)
    if name == "Maximum":
        return max(a, b)
    if name == "NilpotentMaximum":
        return max(a, b) if a + b < 1 else F(1)
    if name == "NormalizedSum":
        return (a + b) / max(F(1), a + b)
    if name == "UnboundedSum":
        return a + b
    raise KeyError(name)


EPS = 2.0 ** -52


def known_hamacher(label, case, detail):
    """KF-C04-hamacher-sum-cancellation: HamacherSum evaluates (a+b-2ab)/(1-ab) literally; when a*b -> 1 numerator
    and denominator cancel catastrophically (absolute error ~ 8*eps/(1-ab), up to O(1): HamacherSum(1-2^-53, 1) = 2).
    Signature: the failing point involves HamacherSum, the two largest operands x, y have 1 - x*y < 2e-3, and (for
    the formula label) the discrepancy is within 64*eps/(1-xy) (any larger error, or any error outside that corner,
    is still a violation)."""
    if isinstance(case, dict) and label.startswith("broadcast:") and len(case.get("a", [])) == len(case.get("b", [])) == 1:
        case, label = {"norm": case.get("norm"), "pts": [[case["a"][0], case["b"][0]]]}, "formula"
    if not isinstance(case, dict) or "pts" not in case or len(case["pts"]) != 1:
        return None
    name = case.get("norm")
    if not (name == "HamacherSum" or (name == "HamacherProduct" and label == "duality")):
        return None
    vals = sorted(float(v) for v in case["pts"][0])
    if any(not (0.0 <= v <= 1.0) for v in vals):
        return None
    d = 1.0 - vals[-1] * vals[-2]
    if d >= 2e-3:
        return None
    if label == "formula":
        err = abs(float(detail["got"]) - float(detail["ref"]))
        if not err <= 64 * EPS / max(d, EPS / 2) + 1e-12:
            return None
    return "KF-C04-hamacher-sum-cancellation"


def setup_ctx(ctx):
    if any(k["id"] == "KF-C04-hamacher-sum-cancellation" for k in ctx.known):
        ctx.matchers.append(known_hamacher)


def make(name: str):
    fm = fl.settings.factory_manager
    return (fm.tnorm if name in TNORMS else fm.snorm).construct(name)


def call(norm, a, b):
    return np.asarray(norm.compute(a, b), dtype=float)


def check_pairs(ctx, case) -> None:
    """case = {"norm", "pts": [[a,b]...], "exact": bool, "shape": None|[..]}"""
    name, pts, exact = case["norm"], case["pts"], bool(case.get("exact"))
    shape = case.get("shape")
    n = make(name)
    A = np.array([p[0] for p in pts], dtype=float)
    B = np.array([p[1] for p in pts], dtype=float)
    if shape:
        A, B = A.reshape(shape), B.reshape(shape)
    keepA, keepB = A.copy(), B.copy()
    raw = n.compute(A, B)
    ctx.check(bool(np.array_equal(A, keepA) and np.array_equal(B, keepB)), "argument-mutated", case, {})
    ctx.check(np.shape(raw) == A.shape, "shape", case, {"got": list(np.shape(raw)), "want": list(A.shape)})
    Y = np.asarray(raw, dtype=float).reshape(-1)
    Yc = call(n, B, A).reshape(-1)
    is_t = name in TNORMS
    ident, annih = (1.0, 0.0) if is_t else (0.0, 1.0)
    slack = 0.0 if exact and name not in QUOTIENT else 1e-12
    for i, (a, b) in enumerate(pts):
        a, b = float(a), float(b)
        y = float(Y[i])
        sub = {"norm": name, "pts": [[a, b]], "exact": exact, "shape": None}
        fa, fb = F(a), F(b)
        r = float(ref(name, fa, fb))
        ok = (not math.isnan(y)) and abs(y - r) <= slack
        if not ok and name in FRAGILE and not exact and abs(float(fa + fb - 1)) < 1e-9:
            alt = {0.0, min(a, b)} if name == "NilpotentMinimum" else {1.0, max(a, b)}
            ok = any(abs(y - v) <= slack for v in alt)
            ctx.cls("fragile_nilpotent")
        ctx.check(ok, "formula", sub, {"got": y, "ref": r})
        if name != "UnboundedSum":
            ctx.check(-slack <= y <= 1.0 + slack, "range", sub, {"got": y})
            if is_t:
                ctx.check(y <= min(a, b) + slack, "T<=min", sub, {"got": y})
            else:
                ctx.check(y >= max(a, b) - slack, "S>=max", sub, {"got": y})
        ctx.check(float(Yc[i]) == y, "commutative", sub, {"ab": y, "ba": float(Yc[i])})
        ys = n.compute(a, b)
        ctx.check(np.shape(ys) == () and float(ys) == y, "scalar-vs-array", sub, {"scalar": float(ys), "array": y})
        # identity / annihilator on each coordinate
        for v in (a, b):
            yi = float(call(n, v, ident))
            ctx.check(abs(yi - v) <= slack, "identity", {"norm": name, "pts": [[v, ident]], "exact": exact}, {"got": yi})
            if name != "UnboundedSum":
                ya = float(call(n, v, annih))
                ctx.check(abs(ya - annih) <= slack, "annihilator",
                          {"norm": name, "pts": [[v, annih]], "exact": exact}, {"got": ya})
        if is_t:
            s = make(DUAL[name])
            d = float(call(s, a, b))
            t = float(call(n, 1.0 - a, 1.0 - b))
            dslack = 0.0 if exact and name not in QUOTIENT else 1e-12
            okd = abs(d - (1.0 - t)) <= dslack
            if not okd and name in FRAGILE and not exact and abs(float(fa + fb - 1)) < 1e-9:
                okd = True
                ctx.cls("fragile_nilpotent_dual")
            if not okd and name == "DrasticProduct" and not exact and (F(1.0 - a) != 1 - fa or F(1.0 - b) != 1 - fb):
                # the law is about the real complements; 1-a rounded to 1.0 flips the crisp test max(.,.)==1
                okd = True
                ctx.cls("fragile_drastic_dual")
            ctx.check(okd, "duality", sub, {"S(a,b)": d, "1-T(1-a,1-b)": 1.0 - t})
        ctx.ev()
        if 0.0 < a < 1.0 and 0.0 < b < 1.0 and not exact:
            ctx.nt([name, a, b])


def check_triples(ctx, case) -> None:
    """case = {"norm", "pts": [[a,b,c]...], "exact"}: associativity and monotonicity (b <= c)."""
    name, pts, exact = case["norm"], case["pts"], bool(case.get("exact"))
    if name == "UnboundedSum" and False:
        return
    n = make(name)
    A, B, C = (np.array([p[i] for p in pts], dtype=float) for i in range(3))
    slack = 0.0 if exact and name not in QUOTIENT else 1e-12
    left = call(n, call(n, A, B), C)
    right = call(n, A, call(n, B, C))
    ab, ac = call(n, A, B), call(n, A, C)
    for i, (a, b, c) in enumerate(pts):
        sub = {"norm": name, "pts": [[float(a), float(b), float(c)]], "exact": exact}
        fragile = (name in FRAGILE or name.startswith("Drastic")) and not exact
        if name not in NONASSOC and not fragile:
            ctx.check(abs(float(left[i]) - float(right[i])) <= slack, "associative", sub,
                      {"(ab)c": float(left[i]), "a(bc)": float(right[i])})
        if b <= c:
            okm = float(ab[i]) <= float(ac[i]) + slack
            if not okm and name in FRAGILE and not exact and min(abs(a + b - 1), abs(a + c - 1)) < 1e-9:
                okm = True
                ctx.cls("fragile_nilpotent_monotone")
            ctx.check(okm, "monotone", sub, {"N(a,b)": float(ab[i]), "N(a,c)": float(ac[i])})
        ctx.ev()
        if all(0.0 < float(v) < 1.0 for v in (a, b, c)) and not exact:
            ctx.nt([name, "t", float(a), float(b), float(c)])


# ---------------------------------------------------------------------------------------------------
def unit():
    sp = [0.0, 1.0, 0.5, math.nextafter(1, 0), math.nextafter(0, 1), math.nextafter(0.5, 0), math.nextafter(0.5, 1)]
    return st.one_of(st.floats(0, 1, allow_nan=False), st.sampled_from(sp), st.integers(0, 64).map(lambda k: k / 64))


@st.composite
def pair(draw):
    a = draw(unit())
    k = draw(st.integers(0, 5))
    if k == 0:  # a + b next to 1
        b = 1.0 - a
        j = draw(st.integers(-2, 2))
        for _ in range(abs(j)):
            b = math.nextafter(b, 2.0 if j > 0 else -1.0)
        b = min(1.0, max(0.0, b))
    else:
        b = draw(unit())
    return [a, b]


@st.composite
def pair_cases(draw):
    name = draw(st.sampled_from(TNORMS + SNORMS))
    kind = draw(st.sampled_from(["1d", "2d", "one"]))
    if kind == "one":
        pts, shape = [draw(pair())], None
    elif kind == "1d":
        pts = draw(st.lists(pair(), min_size=1, max_size=6))
        shape = [len(pts)]
    else:
        r, c = draw(st.integers(1, 3)), draw(st.integers(1, 3))
        pts = draw(st.lists(pair(), min_size=r * c, max_size=r * c))
        shape = [r, c]
    return {"norm": name, "pts": pts, "exact": False, "shape": shape}


@st.composite
def triple_cases(draw):
    name = draw(st.sampled_from(TNORMS + SNORMS))
    pts = draw(st.lists(st.tuples(unit(), unit(), unit()).map(list), min_size=1, max_size=6))
    return {"norm": name, "pts": pts, "exact": False}


@st.composite
def broadcast_cases(draw):
    name = draw(st.sampled_from(TNORMS + SNORMS))
    a = draw(st.lists(unit(), min_size=1, max_size=4))
    b = draw(st.lists(unit(), min_size=1, max_size=5))
    return {"norm": name, "a": a, "b": b, "exact": False}


def shard_grid(ctx, shard, nshards, m3):
    names = TNORMS + SNORMS
    g2 = [k / 64 for k in range(65)]
    g3 = [k / m3 for k in range(m3 + 1)]
    for idx, name in enumerate(names):
        if idx % max(nshards, 1) != (shard - 1 if nshards > 1 else 0):
            continue
        pts = [[a, b] for a in g2 for b in g2]
        ctx.direct("pairs", check_pairs, [{"norm": name, "pts": pts, "exact": True, "shape": None}])
        ctx.nt_bulk(63 * 63, {"norm": name, "a": g2[1], "b": g2[2]})
        tpts = [[a, b, c] for a in g3 for b in g3 for c in g3]
        ctx.direct("triples", check_triples, [{"norm": name, "pts": tpts, "exact": True}])
        ctx.nt_bulk((m3 - 1) ** 3)


def boundary_values():
    """Operands at and next to every branch point of the crisp norms: 0, 1, 1/2, their float neighbours, values within
    the library's comparison tolerance (1e-3) of 0 and 1, and magnitudes whose products underflow."""
    vals = {0.0, 1.0, 0.5, 0.25, 0.75, 0.3, 0.7, 1e-300, 1e-200, 2.0 ** -600, 5e-324, 1e-17, 1e-9, 1e-4, 5e-4, 1e-3, 2e-3,
            0.999, 0.9995, 0.9999, 0.998, 1 - 1e-9}
    for k in (1, 2, 10, 11, 20, 52, 53):
        vals.add(2.0 ** -k)
        vals.add(1.0 - 2.0 ** -k)
    for v in (0.0, 0.5, 1.0):
        vals.add(min(1.0, max(0.0, math.nextafter(v, 2.0))))
        vals.add(min(1.0, max(0.0, math.nextafter(v, -1.0))))
    return sorted(vals)


def check_broadcast(ctx, case) -> None:
    """case = {"norm", "a": [..], "b": [..], "exact": bool}. The operand shapes the library itself uses: a column of
    degrees (rows, 1) against a row of memberships (m,) in Activated.membership, and a scalar against an array
    (rule weight / `any`). Elementwise means: the (rows, m) table of the documented formula, the scalar broadcast."""
    name, a, b, exact = case["norm"], case["a"], case["b"], bool(case.get("exact"))
    n = make(name)
    A, B = np.array(a, dtype=float), np.array(b, dtype=float)
    slack = 0.0 if exact and name not in QUOTIENT else 1e-12
    want = np.array([[float(ref(name, F(x), F(y))) for y in b] for x in a], dtype=float)

    def cmp(label, raw, w, sub):
        ctx.ev()
        ok = np.shape(raw) == w.shape
        ctx.check(ok, "broadcast-shape:" + label, sub, {"got": list(np.shape(raw)), "want": list(w.shape)})
        if not ok:
            return
        got = np.asarray(raw, dtype=float)
        bad = ~(np.abs(got - w) <= slack)
        if name in FRAGILE and not exact:
            sums = np.add.outer(np.array(sub["a"], dtype=float), np.array(sub["b"], dtype=float)).reshape(w.shape)
            bad &= ~(np.abs(sums - 1.0) < 1e-9)
        for i in (tuple(int(k) for k in ix) for ix in np.argwhere(bad)):
            # one report per element, as a 1 x 1 case (replayable; lets a listed finding be told from anything else)
            x = sub["a"][i[0]] if len(i) == 2 else sub["a"][0]
            ctx.check(False, "broadcast:" + label, {"norm": name, "a": [x], "b": [sub["b"][i[-1]]], "exact": exact,
                       "full": {"a": list(sub["a"]), "b": list(sub["b"])}},
                      {"index": list(i), "got": float(got[i]), "ref": float(w[i])})

    Ac, Bc = A.reshape(-1, 1).copy(), B.copy()
    cmp("column-x-row", n.compute(Ac, Bc), want, case)
    ctx.check(bool(np.array_equal(Ac.reshape(-1), A) and np.array_equal(Bc, B)), "argument-mutated", case, {})
    cmp("row-x-column", n.compute(B, A.reshape(-1, 1)), want, case)
    for i, x in enumerate(a):
        sub = {"norm": name, "a": [x], "b": b, "exact": exact}
        cmp("scalar-x-array", n.compute(float(x), B), want[i], sub)
        cmp("array-x-scalar", n.compute(B, float(x)), want[i], sub)
    if len(a) > 1 and len(b) > 1:
        ctx.nt(["broadcast", name, len(a), len(b)], {"norm": name, "a": a[:3], "b": b[:3]})


LONG = [1, 2, 3, 255, 256, 257, 4095, 4096, 4097, 65535, 65536, 65537, 65539, 131073, 262147, 1048579]


def check_long(ctx, case) -> None:
    """case = {"norm", "n"}: two arrays of n degrees on the k/64 grid, a[i] = (7 i mod 65)/64, b[i] = ((11 i + 3) mod
    65)/64 (all 4225 pairs occur from n = 4225 on, the last elements are interior pairs). "Elementwise on arrays" has no
    length limit: element i of the result is the 65 x 65 table entry of (a[i], b[i]); the table comes from 4225 scalar
    calls, each compared with the Fraction reference."""
    name, n = case["norm"], int(case["n"])
    nm = make(name)
    slack = 0.0 if name not in QUOTIENT else 1e-12
    table = np.empty((65, 65))
    for i in range(65):
        for j in range(65):
            table[i, j] = float(nm.compute(i / 64, j / 64))
            r = float(ref(name, F(i, 64), F(j, 64)))
            if not abs(table[i, j] - r) <= slack:
                ctx.check(False, "formula", {"norm": name, "pts": [[i / 64, j / 64]], "exact": True, "shape": None},
                          {"got": float(table[i, j]), "ref": r})
                table[i, j] = r
    idx = np.arange(n, dtype=np.int64)
    ka, kb = (7 * idx) % 65, (11 * idx + 3) % 65
    A, B = ka / 64.0, kb / 64.0
    keepA, keepB = A.copy(), B.copy()
    got = nm.compute(A, B)
    ctx.ev()
    ctx.check(bool(np.array_equal(A, keepA) and np.array_equal(B, keepB)), "argument-mutated", case, {})
    ok = np.shape(got) == (n,)
    ctx.check(ok, "long-shape", case, {"got": list(np.shape(got)), "want": [n]})
    if ok:
        want = table[ka, kb]
        bad = ~(np.abs(np.asarray(got, dtype=float) - want) <= slack)
        if bad.any():
            i = int(np.argwhere(bad)[0][0])
            ctx.check(False, "long-elementwise", case,
                      {"first_wrong_index": i, "wrong_elements": int(bad.sum()), "a": float(A[i]), "b": float(B[i]),
                       "got": float(np.asarray(got, dtype=float)[i]), "ref": float(want[i])})
    if n > 8:
        ctx.nt(["long", name, n], case)
    ctx.cls("long_array>65536" if n > 65536 else "long_array<=65536")


def check_crisp_dtypes(ctx, case) -> None:
    """Crisp degrees 0/1 given as booleans or integers (Function terms with and/or return numpy booleans as
    memberships): the norm's documented value, as for 0.0 / 1.0."""
    name = case["norm"]
    n = make(name)
    for a in (0, 1):
        for b in (0, 1):
            want = float(ref(name, F(a), F(b)))
            for kind, (x, y) in (("bool", (bool(a), bool(b))), ("np.bool_", (np.bool_(a), np.bool_(b))),
                                 ("int", (a, b)), ("np.int64", (np.int64(a), np.int64(b))),
                                 ("bool-array", (np.array([bool(a)] * 2), np.array([bool(b)] * 2))),
                                 ("int-array", (np.array([a, a]), np.array([b, b])))):
                got = np.asarray(n.compute(x, y), dtype=float).reshape(-1)
                ctx.ev()
                ctx.check(bool(np.all(got == want)), "crisp-dtype:" + kind, {"norm": name, "a": a, "b": b, "dtype": kind},
                          {"got": got.tolist(), "want": want})
    ctx.nt(["crisp-dtypes", name], {"norm": name, "dtypes": "bool, np.bool_, int, np.int64, arrays"})


def shard_boundary(ctx, shard, nshards):
    names = TNORMS + SNORMS
    vals = boundary_values()
    for idx, name in enumerate(names):
        if idx % max(nshards, 1) != (shard - 1 if nshards > 1 else 0):
            continue
        pts = [[a, b] for a in vals for b in vals]
        ctx.direct("pairs", check_pairs, [{"norm": name, "pts": pts, "exact": False, "shape": None}])
        ctx.cls("boundary_pairs", len(pts))
        ctx.direct("crisp", check_crisp_dtypes, [{"norm": name}])
        ctx.direct("long", check_long, [{"norm": name, "n": n_} for n_ in LONG])
        # b in another order than a (and once of another length): with a == b the table is symmetric and a transposed
        # or row/column-swapped result would go unnoticed
        ctx.direct("broadcast", check_broadcast, [{"norm": name, "a": vals, "b": vals[::-1], "exact": False}])
        g = [k / 16 for k in range(17)]
        ctx.direct("broadcast", check_broadcast, [{"norm": name, "a": g, "b": g[::-1], "exact": True},
                                                  {"norm": name, "a": g, "b": g[3:][::-1] + [1.0, 0.0], "exact": True}])


def shard_random(ctx, shard, nshards, ex):
    ctx.hyp("pairs", pair_cases(), check_pairs, ex)
    ctx.hyp("triples", triple_cases(), check_triples, ex)
    ctx.hyp("broadcast", broadcast_cases(), check_broadcast, max(ex // 4, 50))


def run(ctx) -> None:
    import sys

    from vlib import runner

    fm = fl.settings.factory_manager
    reg = {"tnorm": sorted(fm.tnorm.constructors), "snorm": sorted(fm.snorm.constructors)}
    ctx.direct("registry", lambda c, case: c.check(
        case["registered"] == {"tnorm": sorted(TNORMS), "snorm": sorted(SNORMS)}, "registered-norms", case),
        [{"registered": reg}])
    mod = sys.modules[__name__]
    if ctx.tier == "quick":
        runner.run_sharded(ctx, mod, "shard_grid", 8, m3=16)
        runner.run_sharded(ctx, mod, "shard_boundary", 8)
        shard_random(ctx, 0, 1, 500)
        m3 = 16
    else:
        runner.run_sharded(ctx, mod, "shard_grid", 16, m3=32)
        runner.run_sharded(ctx, mod, "shard_boundary", 16)
        runner.run_sharded(ctx, mod, "shard_random", 16, ex=4000)
        m3 = 32
    ctx.exhaustive_parts.append(f"all 16 norms x all (a,b) on k/64 (4225 pairs: formula, range, bounds, commutativity, "
                                f"identity, annihilator, duality, scalar==array) and all (a,b,c) on k/{m3} "
                                f"(associativity, monotonicity)")


def replay(ctx, prop, case) -> None:
    fn = {"pairs": check_pairs, "triples": check_triples, "crisp": check_crisp_dtypes,
          "broadcast": check_broadcast, "long": check_long}.get(prop)
    if fn:
        if prop == "broadcast" and "full" in case:  # the failing element was reported alone; replay its whole table
            case = {"norm": case["norm"], "a": case["full"]["a"], "b": case["full"]["b"], "exact": case.get("exact")}
        ctx.direct(prop, fn, [case])
