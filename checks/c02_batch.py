"""C02 — Batch (vectorised) processing equals row-by-row float processing.

Oracle: differential — the same spec built twice; one engine gets the N rows as arrays (per-variable arrays or the
engine-level input matrix) and processes once, the other processes the rows one after another with Python floats.
"""

from __future__ import annotations

import math

import numpy as np
from hypothesis import strategies as st

import fuzzylite as fl  # noqa: F401
from vlib import build, gen

RULE = ("cases are (engine spec with General activation, batch of 1-12 rows (thorough: up to 64), way of presenting the "
        "batch); non-trivial when the batch has >= 2 rows and at least one enabled output is finite in some row; "
        "lock-previous specs with a NaN-producing row after a valid one are counted separately; distinct by the case. "
        "Long batches: N in {257 .. 131073} rows tiled from 2-7 generated rows, lock-previous forced off; every row must "
        "equal the short batch's row with the same input; non-trivial when some output is finite")
ASSUMPTIONS = [
    "both engines are built independently from the same spec and restarted; the scalar path is the reference for the "
    "batch path (a defect common to both is C01's business)",
    "output values compared within 1e-9 relative (NaN-equal); activation degrees within 4 ulp; fuzzy_value() strings "
    "exactly; for Bisector/SOM/MOM/LOM a difference of at most one sample cell while all degrees agree within 4 ulp is "
    "classified ulp_tie and counted, not reported",
    "if one mode raises and the other does not it is a violation; if both raise the exception types must match",
]


def fvec(x):
    return [float(v) for v in np.asarray(x, dtype=float).reshape(-1)]


def run_scalar(spec, rows, prefix=()):
    eng = build.mk_engine(spec)
    eng.restart()
    outs, fz, degs = [], [], []
    for row in prefix:  # an earlier batch of the same session, row by row
        for v, x in zip(eng.input_variables, row):
            v.value = float(x)
        eng.process()
    for row in rows:
        for v, x in zip(eng.input_variables, row):
            v.value = float(x)
        eng.process()
        outs.append([fvec(v.value)[0] for v in eng.output_variables])
        fz.append([str(np.asarray(v.fuzzy_value()).reshape(-1)[0]) for v in eng.output_variables])
        degs.append([[fvec(r.activation_degree)[0] for r in rb.rules] for rb in eng.rule_blocks])
    return outs, fz, degs


def run_batch(spec, rows, mode, prefix=(), inplace=False):
    eng = build.mk_engine(spec)
    eng.restart()
    n = len(rows)
    if prefix:
        # the same engine already processed another batch (no restart in between), possibly of another size
        for j, v in enumerate(eng.input_variables):
            v.value = np.array([float(r[j]) for r in prefix])
        eng.process()
    if prefix and inplace and len(prefix) == n and mode == "per_var":
        # the new batch is written into the arrays the variables already hold
        for j, v in enumerate(eng.input_variables):
            held = v.value
            if isinstance(held, np.ndarray) and held.shape == (n,):
                held[...] = np.array([float(r[j]) for r in rows])
                if v.lock_range:
                    v.value = held  # re-assign so that range locking applies to the new numbers
            else:
                v.value = np.array([float(r[j]) for r in rows])
    elif mode == "per_var":
        for j, v in enumerate(eng.input_variables):
            v.value = np.array([float(r[j]) for r in rows])
    elif mode == "matrix":
        eng.input_values = np.array([[float(x) for x in r] for r in rows])
    elif mode == "matrix1d":  # single input variable: vector of N values; else one row
        if len(eng.input_variables) == 1:
            eng.input_values = np.array([float(r[0]) for r in rows])
        else:
            eng.input_values = np.array([float(x) for x in rows[0]])
    elif mode == "matrix0d":
        eng.input_values = np.array(float(rows[0][0]))
    eng.process()

    def col(x):
        a = np.asarray(x).reshape(-1)
        return [a[i] if a.size > 1 else a[0] for i in range(n)]

    outs = [[float(c) for c in col(v.value)] for v in eng.output_variables]
    fz = [[str(c) for c in col(v.fuzzy_value())] for v in eng.output_variables]
    degs = [[[float(c) for c in col(r.activation_degree)] for r in rb.rules] for rb in eng.rule_blocks]
    return outs, fz, degs


def eq(a, b, rel=1e-9):
    if math.isnan(a) or math.isnan(b):
        return math.isnan(a) and math.isnan(b)
    if math.isinf(a) or math.isinf(b):
        return a == b
    return abs(a - b) <= rel * max(1.0, abs(a), abs(b))


def ulp_eq(a, b, n=4):
    if math.isnan(a) or math.isnan(b):
        return math.isnan(a) and math.isnan(b)
    return a == b or abs(a - b) <= n * math.ulp(max(abs(a), abs(b)))


def check_batch(ctx, case) -> None:
    spec, rows, mode = case["spec"], case["rows"], case["mode"]
    if mode == "matrix1d" and len(spec["inputs"]) > 1:
        rows = rows[:1]
    if mode == "matrix0d":
        rows = [[rows[0][0]] * len(spec["inputs"])]
    ctx.ev()
    ctx.cls("mode:" + mode)
    ctx.cls("profile:" + spec.get("profile", "?"))
    res = {}
    prefix = case.get("prefix") or []
    if mode not in ("per_var", "matrix"):
        prefix = []
    if prefix:
        ctx.cls("second_batch_in_place" if case.get("inplace") and len(prefix) == len(rows) and mode == "per_var"
                else "second_batch_same_size" if len(prefix) == len(rows) else "second_batch_other_size")
    for name, fn in (("scalar", lambda: run_scalar(spec, rows, prefix)),
                     ("batch", lambda: run_batch(spec, rows, mode, prefix, case.get("inplace")))):
        try:
            res[name] = ("ok", fn())
        except Exception as ex:  # noqa: BLE001 - the property is about which mode raises
            import traceback

            res[name] = ("raise", type(ex).__name__, f"{ex}"[:300], traceback.format_exc()[-600:])
    if res["scalar"][0] != res["batch"][0]:
        bad = "batch" if res["batch"][0] == "raise" else "scalar"
        ctx.fail(f"only-{bad}-raises:{res[bad][1]}", case, {"mode": bad, "exception": res[bad][1:3], "tb": res[bad][3]})
    if res["scalar"][0] == "raise":
        ctx.check(res["scalar"][1] == res["batch"][1], "different-exception-types", case,
                  {"scalar": res["scalar"][1:3], "batch": res["batch"][1:3]})
        ctx.cls("both_raise:" + res["scalar"][1])
        return
    (so, sf, sd), (bo, bf, bd) = res["scalar"][1], res["batch"][1]
    n = len(rows)
    finite = False
    inexact = 0
    for i in range(n):
        degrees_ok = True
        for bi, b in enumerate(spec["blocks"]):
            if not b.get("enabled", True):
                continue
            for ri in range(len(b["rules"])):
                a, c = sd[i][bi][ri], bd[bi][ri][i]
                if not ulp_eq(a, c):
                    degrees_ok = False
                    ctx.fail("activation-degree", case, {"row": i, "block": bi, "rule": ri, "scalar": a, "batch": c})
        for oi, v in enumerate(spec["outputs"]):
            a, c = so[i][oi], bo[oi][i]
            if a != c and not (math.isnan(a) and math.isnan(c)):
                inexact += 1
            if not eq(a, c):
                dz = v["defuzzifier"]
                if "resolution" in dz and dz["cls"] != "Centroid" and degrees_ok and math.isfinite(a) and math.isfinite(c) \
                        and abs(a - c) <= (float(v["max"]) - float(v["min"])) / int(dz["resolution"]) * 1.000001:
                    ctx.cls("ulp_tie")
                    continue
                ctx.fail("output-value", case, {"row": i, "variable": v["name"], "scalar": a, "batch": c,
                                                "input": rows[i]})
            if math.isfinite(a) and v.get("enabled", True):
                finite = True
            if sf[i][oi] != bf[oi][i]:
                ctx.fail("fuzzy-value", case, {"row": i, "variable": v["name"], "scalar": sf[i][oi], "batch": bf[oi][i]})
    if inexact:
        ctx.cls("rows_not_bit_identical", inexact)
    lp = False
    for oi, v in enumerate(spec["outputs"]):
        if v.get("lock_previous") and v.get("enabled", True):
            seen = False
            for i in range(n):
                if math.isfinite(so[i][oi]):
                    seen = True
            # a NaN-producing row after a valid one: visible as equal consecutive values with a NaN input row
            for i in range(1, n):
                if any(math.isnan(x) for x in rows[i]) and math.isfinite(so[i - 1][oi]):
                    lp = True
                if any(math.isnan(x) for x in rows[i]) and math.isinf(so[i - 1][oi]):
                    ctx.cls("lock_previous_carries_infinite_value")
    if lp:
        ctx.cls("lock_previous_fill_forward_exercised")
    if n >= 2 and finite:
        ctx.nt(case, {"rules": [[gen.rule_text(r) for r in b["rules"]] for b in spec["blocks"]], "rows": rows,
                      "mode": mode, "outputs_scalar": so, "lock_previous": [v.get("lock_previous") for v in spec["outputs"]]})


def check_long_batch(ctx, case) -> None:
    """case = {"spec", "rows": n distinct rows, "N", "mode"}: one batch of N rows, row i = rows[i mod n], on an engine
    without lock-previous (forced off: then, within one processing step, a row's results depend on that row only).
    Rows with equal inputs must have equal activation degrees and output values, however long the batch is; the first
    n rows are the short batch that check_batch compares with the row-by-row run."""
    import copy

    spec, rows, N, mode = copy.deepcopy(case["spec"]), case["rows"], int(case["N"]), case["mode"]
    for v in spec["outputs"]:
        v["lock_previous"] = False
    n = len(rows)
    maxres = max([int(v["defuzzifier"].get("resolution", 1)) for v in spec["outputs"]] + [1])
    if N * maxres > 2e7:  # memory: the library materialises an (N x resolution) matrix per activated term
        N = max(n + 1, int(2e7 // maxres))
    sel = np.arange(N) % n
    M = np.array([[float(x) for x in r] for r in rows], dtype=float)[sel]
    ctx.ev()
    try:
        short = run_batch(spec, rows, "matrix")
    except Exception:  # noqa: BLE001 - engines that cannot process the short batch are check_batch's business
        ctx.cls("long_batch_short_batch_raises")
        return
    eng = build.mk_engine(spec)
    eng.restart()
    if mode == "per_var":
        for j, v in enumerate(eng.input_variables):
            v.value = M[:, j].copy()
    else:
        eng.input_values = M.copy()
    try:
        eng.process()
    except Exception as ex:  # noqa: BLE001
        import traceback

        ctx.fail(f"only-long-batch-raises:{type(ex).__name__}", case, {"exception": f"{ex}"[:300],
                                                                       "tb": traceback.format_exc()[-600:]})
        return
    ctx.cls("long_batch>65536" if N > 65536 else "long_batch<=65536")

    def compare(label, got, first, extra):
        g = np.asarray(got, dtype=float).reshape(-1)
        if g.size == 1:
            g = np.full(N, g[0])
        if g.size != N:
            ctx.fail("long-batch-shape:" + label, case, dict(extra, got=int(g.size), want=N))
            return False
        want = np.array(first, dtype=float)[sel]
        with np.errstate(all="ignore"):
            bad = ~((g == want) | (np.isnan(g) & np.isnan(want))
                    | (np.abs(g - want) <= 1e-9 * np.maximum(1.0, np.maximum(np.abs(g), np.abs(want)))))
        if bad.any():
            i = int(np.argwhere(bad)[0][0])
            ctx.fail("long-batch-" + label, case, dict(extra, row=i, same_input_as_row=int(sel[i]), wrong_rows=int(bad.sum()),
                                                       got=float(g[i]), short_batch=float(want[i]), input=rows[int(sel[i])]))
            return False
        return True

    so, _, sd = short
    finite = False
    for oi, v in enumerate(eng.output_variables):
        if not spec["outputs"][oi].get("enabled", True):
            continue
        compare("output-value", v.value, so[oi], {"variable": v.name})
        finite = finite or any(math.isfinite(x) for x in so[oi])
    for bi, rb in enumerate(eng.rule_blocks):
        if not spec["blocks"][bi].get("enabled", True):
            continue
        for ri, r in enumerate(rb.rules):
            compare("activation-degree", r.activation_degree, sd[bi][ri], {"block": bi, "rule": ri})
    if finite and n >= 2:
        ctx.nt(["long", case["spec"], rows, N], {"rows": rows[:3], "N": N, "mode": mode})


@st.composite
def long_cases(draw):
    spec = draw(gen.engine(activation=gen.activation_general(), functions=True))
    n = draw(st.sampled_from([2, 3, 5, 7]))
    rows = [draw(gen.input_row(spec)) for _ in range(n)]
    return {"spec": spec, "rows": rows, "N": draw(st.sampled_from([65539, 65537, 70001, 131073, 4099, 257])),
            "mode": draw(st.sampled_from(["matrix", "per_var"]))}


@st.composite
def cases(draw, maxrows=12):
    spec = draw(gen.engine(activation=gen.activation_general(), functions=True))
    n = draw(st.sampled_from([1, 2, 3, 4, 6, 8, maxrows]))
    rows = [draw(gen.input_row(spec)) for _ in range(n)]
    if n >= 3 and draw(st.booleans()):  # plant a NaN row after a (probably) valid one
        k = draw(st.integers(1, n - 1))
        rows[k] = [math.nan] * len(spec["inputs"])
        if draw(st.integers(0, 2)) == 0:  # ... or after a row that drives Linear / Function outputs to +-inf
            rows[k - 1] = [draw(st.sampled_from([math.inf, -math.inf]))] * len(spec["inputs"])
    mode = draw(st.sampled_from(["per_var", "per_var", "matrix", "matrix", "matrix1d", "matrix0d"]))
    prefix, inplace = [], False
    k = draw(st.integers(0, 5))
    if k == 0:  # an earlier batch of another size on the same engine
        m = draw(st.sampled_from([x for x in (1, 2, 3, 5) if x != n] or [n + 1]))
        prefix = [draw(gen.input_row(spec)) for _ in range(m)]
    elif k == 1:  # an earlier batch of the same size, the new one written into the same arrays
        prefix = [draw(gen.input_row(spec)) for _ in range(n)]
        inplace = True
    return {"spec": spec, "rows": rows, "mode": mode, "prefix": prefix, "inplace": inplace}


def shard(ctx, shard, nshards, ex, maxrows):
    ctx.hyp("batch", cases(maxrows), check_batch, ex)
    ctx.hyp("long", long_cases(), check_long_batch, max(ex // 25, 12))


def run(ctx) -> None:
    import sys

    from vlib import runner

    mod = sys.modules[__name__]
    if ctx.tier == "quick":
        runner.run_sharded(ctx, mod, "shard", 8, ex=300, maxrows=12)
    else:
        runner.run_sharded(ctx, mod, "shard", 16, ex=2500, maxrows=64)


def replay(ctx, prop, case) -> None:
    if prop == "batch":
        ctx.direct(prop, check_batch, [case])
    if prop == "long":
        ctx.direct(prop, check_long_batch, [case])
