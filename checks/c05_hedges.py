"""C05 — Hedges compute their formulas and keep degrees in [0,1].

Oracle: closed forms written from the class docstrings (math / exact dyadic arithmetic), the laws of
the statement. Domain: exhaustive grid k/4096, random doubles, 0.5 and neighbours; scalar/1-D/2-D.
"""

from __future__ import annotations

import math

import numpy as np
from hypothesis import strategies as st

import fuzzylite as fl

RULE = ("cases are (hedge, x-vector[, shape]); a point counts as non-trivial when 0 < x < 1; distinct by "
        "(hedge, x); the k/4096 grid is enumerated completely (each grid point distinct by construction), "
        "random cases are drawn by Hypothesis from doubles in [0,1] mixed with 0, 1, 0.5 and their neighbours")
ASSUMPTIONS = [
    "hedges are obtained from the library's HedgeFactory (as the rule parser does); the registered set must be "
    "exactly {any, extremely, not, seldom, somewhat, very}",
    "reference formulas: docstrings of fuzzylite/hedge.py; sqrt-based formulas compared within 4 ulp, "
    "polynomial ones exactly on the dyadic grid and within 4 ulp on random doubles",
    "inverse pairs compared with 1e-9 absolute tolerance (statement: mutual inverses)",
]

HEDGES = ["any", "extremely", "not", "seldom", "somewhat", "very"]


def ref(name: str, x: float) -> float:
    if name == "any":
        return 1.0
    if name == "extremely":
        return 2.0 * x * x if x <= 0.5 else 1.0 - 2.0 * (1.0 - x) * (1.0 - x)
    if name == "not":
        return 1.0 - x
    if name == "seldom":
        return math.sqrt(x / 2.0) if x <= 0.5 else 1.0 - math.sqrt((1.0 - x) / 2.0)
    if name == "somewhat":
        return math.sqrt(x)
    if name == "very":
        return x * x
    raise KeyError(name)


def make(name: str):
    return fl.settings.factory_manager.hedge.construct(name)


def ulps(a: float, b: float) -> float:
    if a == b:
        return 0.0
    return abs(a - b) / max(math.ulp(max(abs(a), abs(b))), 5e-324)


def check_points(ctx, case) -> None:
    """case = {"hedge": name, "xs": [floats in [0,1]], "shape": None | [dims], "exact": bool}"""
    name = case["hedge"]
    xs = [float(v) for v in case["xs"]]
    shape = case.get("shape")
    exact = bool(case.get("exact"))
    h = make(name)
    ctx.check(h.name == name, "factory-name", case, {"got": h.name})
    layout = case.get("layout")
    if layout == "f32":  # degrees exactly representable in float32, presented as a float32 array
        xs = [float(np.float32(v)) for v in xs]
    arr = np.array(xs, dtype=float)
    if shape:
        arr = arr.reshape(shape)
    if layout == "F" and arr.ndim == 2:
        arr = np.asfortranarray(arr)  # same values and shape, column-major memory
    elif layout == "f32":
        arr = arr.astype(np.float32)
    keep = arr.copy()
    got = h.hedge(arr)
    ctx.check(bool(np.array_equal(arr, keep, equal_nan=True)), "argument-mutated", case,
              {"before": keep.reshape(-1).tolist()[:6], "after": np.asarray(arr).reshape(-1).tolist()[:6]})
    ctx.check(isinstance(got, np.ndarray) and got.shape == arr.shape, "shape", case,
              {"got_shape": list(np.shape(got)), "want": list(arr.shape)})
    flat = np.asarray(got, dtype=float).reshape(-1).copy()
    # results are fresh values: a caller that edits the returned array in place must not change what the next call
    # returns (for arrays and for 0-d results alike)
    if isinstance(got, np.ndarray) and got.flags.writeable:
        got[...] = -7.0
        again = np.asarray(h.hedge(arr), dtype=float).reshape(-1)
        ctx.check(bool(np.array_equal(again, flat, equal_nan=True)), "result-aliased-between-calls", case,
                  {"first": flat.tolist()[:6], "after_caller_edit": again.tolist()[:6]})
        s0 = h.hedge(float(xs[0]))
        if isinstance(s0, np.ndarray) and s0.flags.writeable:
            keep0 = float(s0)
            s0[...] = -7.0
            ctx.check(float(h.hedge(float(xs[0]))) == keep0 or math.isnan(keep0), "result-aliased-between-calls", case,
                      {"first": keep0, "after_caller_edit": float(h.hedge(float(xs[0])))})
    for i, x in enumerate(xs):
        y = float(flat[i])
        sub = {"hedge": name, "xs": [x], "shape": None, "exact": exact}
        r = ref(name, x)
        tol_ulps = 0.0 if (exact and name in ("any", "not", "very", "extremely")) else 4.0
        ctx.check(not math.isnan(y) and ulps(y, r) <= tol_ulps, "formula", sub, {"got": y, "ref": r})
        ctx.check(0.0 <= y <= 1.0, "range", sub, {"got": y})
        # scalar path == array path
        ys = h.hedge(x)
        ctx.check(np.shape(ys) == () and float(ys) == y, "scalar-vs-array", sub,
                  {"scalar": float(ys), "array": y})
        ctx.ev()
        if 0.0 < x < 1.0:
            if exact:
                pass  # counted in bulk by the caller
            else:
                ctx.nt([name, x])
    # fixed points
    for x0, want in ((0.0, {"not": 1.0, "any": 1.0}.get(name, 0.0)), (1.0, {"not": 0.0}.get(name, 1.0))):
        y0 = float(h.hedge(x0))
        ctx.check(y0 == want, "fixed-point", {"hedge": name, "xs": [x0], "shape": None}, {"got": y0, "want": want})
    # monotone (antitone for not) on the sorted sample — exact, every primitive used is monotone under rounding
    order = sorted(range(len(xs)), key=lambda i: xs[i])
    for a, b in zip(order, order[1:]):
        ya, yb = float(flat[a]), float(flat[b])
        ok = ya >= yb if name == "not" else ya <= yb
        ctx.check(ok, "monotone", {"hedge": name, "xs": [xs[a], xs[b]], "shape": None},
                  {"y": [ya, yb]})


def check_relations(ctx, case) -> None:
    """case = {"xs": [...]}: cross-hedge laws: very <= id <= somewhat; inverse pairs; not involution."""
    xs = [float(v) for v in case["xs"]]
    exact = bool(case.get("exact"))
    H = {n: make(n) for n in HEDGES}
    arr = np.array(xs, dtype=float)
    very, somewhat = H["very"].hedge(arr), H["somewhat"].hedge(arr)
    extremely, seldom = H["extremely"].hedge(arr), H["seldom"].hedge(arr)
    inv = {
        "somewhat(very)": H["somewhat"].hedge(very),
        "very(somewhat)": H["very"].hedge(somewhat),
        "seldom(extremely)": H["seldom"].hedge(extremely),
        "extremely(seldom)": H["extremely"].hedge(seldom),
    }
    notnot = H["not"].hedge(H["not"].hedge(arr))
    anyv = H["any"].hedge(arr)
    for i, x in enumerate(xs):
        sub = {"xs": [x], "exact": exact}
        ctx.check(float(very[i]) <= x <= float(somewhat[i]), "very<=id<=somewhat", sub,
                  {"very": float(very[i]), "somewhat": float(somewhat[i])})
        for k, v in inv.items():
            ctx.check(abs(float(v[i]) - x) <= 1e-9, "inverse:" + k, sub, {"got": float(v[i])})
        if exact:
            ctx.check(float(notnot[i]) == x, "not-involution", sub, {"got": float(notnot[i])})
        else:
            ctx.check(abs(float(notnot[i]) - x) <= 2.3e-16, "not-involution", sub, {"got": float(notnot[i])})
        ctx.check(float(anyv[i]) == 1.0, "any==1", sub, {"got": float(anyv[i])})
        ctx.ev()
        if 0.0 < x < 1.0 and not exact:
            ctx.nt(["rel", x])


def check_nonfinite(ctx, case) -> None:
    """any maps everything (also NaN) to 1 — 'any yields 1' is what rule evaluation relies on."""
    x = case["x"]
    y = make("any").hedge(x)
    ctx.check(np.shape(y) == np.shape(x) and bool(np.all(np.asarray(y) == 1.0)), "any==1", case, {"got": y})
    ctx.ev()


# ---------------------------------------------------------------------------------------------------
def unit_doubles():
    special = [0.0, 1.0, 0.5, math.nextafter(0.5, 0), math.nextafter(0.5, 1), math.nextafter(0, 1),
               math.nextafter(1, 0), 0.25, 0.75, 2.0 ** -30, 1 - 2.0 ** -30]
    return st.one_of(st.floats(0.0, 1.0, allow_nan=False), st.sampled_from(special),
                     st.integers(0, 4096).map(lambda k: k / 4096.0),
                     st.floats(0.5 - 1e-9, 0.5 + 1e-9))


def check_layouts(ctx, case) -> None:
    """A fixed 3x4 block of distinct degrees presented through several memory layouts: each result element is the
    hedge of the element at the same index."""
    name = case["hedge"]
    h = make(name)
    base = np.array([[0.0, 0.1, 0.2, 0.3], [0.45, 0.5, 0.55, 0.6], [0.7, 0.8, 0.9, 1.0]])
    views = {"C": base.copy(), "F": np.asfortranarray(base), "T": base.T, "T-F": np.asfortranarray(base.T),
             "strided": np.repeat(base, 2, axis=1)[:, ::2], "column-slice": np.asfortranarray(base)[:, 1:3],
             "3d-transposed": np.stack([base, base[::-1]]).transpose(2, 0, 1), "reversed": base[::-1, ::-1]}
    for lay, arr in views.items():
        got = np.asarray(h.hedge(arr), dtype=float)
        ctx.ev()
        ctx.check(got.shape == arr.shape, "layout-shape", {"hedge": name, "layout": lay}, {"got": list(got.shape)})
        want = np.array([float(h.hedge(float(v))) for v in np.asarray(arr).reshape(-1)]).reshape(arr.shape)
        ctx.check(bool(np.array_equal(got, want, equal_nan=True)), "layout-elementwise", {"hedge": name, "layout": lay},
                  {"got": got.reshape(-1).tolist()[:8], "want": want.reshape(-1).tolist()[:8]})
    ctx.nt(["layouts", name], {"hedge": name, "layouts": sorted(views)})


LONG = [1, 2, 3, 7, 8, 9, 255, 256, 257, 1023, 1024, 1025, 4095, 4096, 4097, 65535, 65536, 65537, 65539, 100003, 131072,
        131073, 262147, 1048579]


def ref_vector(name: str, x: np.ndarray) -> np.ndarray:
    if name == "any":
        return np.ones_like(x)
    if name == "not":
        return 1.0 - x
    if name == "very":
        return x * x
    if name == "somewhat":
        return np.sqrt(x)
    lo = x <= 0.5
    out = np.empty_like(x)
    if name == "extremely":
        out[lo] = 2.0 * x[lo] * x[lo]
        out[~lo] = 1.0 - 2.0 * (1.0 - x[~lo]) * (1.0 - x[~lo])
    else:
        out[lo] = np.sqrt(x[lo] / 2.0)
        out[~lo] = 1.0 - np.sqrt((1.0 - x[~lo]) / 2.0)
    return out


def check_long(ctx, case) -> None:
    """case = {"hedge", "n", "mult"[, "shape"]}: one array of n degrees x[i] = ((i * mult + 7) mod 4097) / 4096 (every
    residue occurs, neighbours differ, the last elements are not 0 / 0.5 / 1). "Elementwise on arrays" has no length
    limit: every element, the last ones included, is the hedge of the element at the same index."""
    name, n, mult = case["hedge"], int(case["n"]), int(case["mult"])
    h = make(name)
    x = ((np.arange(n, dtype=np.int64) * mult + 7) % 4097) / 4096.0
    if case.get("shape"):
        x = x.reshape(case["shape"])
    keep = x.copy()
    got = h.hedge(x)
    ctx.ev()
    ctx.check(bool(np.array_equal(x, keep)), "argument-mutated", case, {})
    ok = np.shape(got) == x.shape
    ctx.check(ok, "long-shape", case, {"got": list(np.shape(got)), "want": list(x.shape)})
    if ok:
        want = ref_vector(name, keep)
        bad = ~(np.abs(np.asarray(got, dtype=float) - want) <= 1e-15)
        if bad.any():
            i = tuple(int(k) for k in np.argwhere(bad)[0])
            ctx.check(False, "long-elementwise", case,
                      {"first_wrong_index": list(i), "wrong_elements": int(bad.sum()), "x": float(keep[i]),
                       "got": float(np.asarray(got, dtype=float)[i]), "ref": float(want[i])})
    if n > 8:
        ctx.nt(["long", name, n, mult, str(case.get("shape"))], case)
    ctx.cls("long_array>65536" if n > 65536 else "long_array<=65536")


def cases_long():
    @st.composite
    def s(draw):
        name = draw(st.sampled_from(HEDGES))
        k = draw(st.integers(0, 20))
        n = draw(st.one_of(st.integers(1, 5000), st.integers(5000, 300000),
                           st.builds(lambda a, d: max(1, 2 ** a + d), st.just(k), st.integers(-3, 3))))
        mult = draw(st.sampled_from([1, 3, 5, 1021, 2053]))
        shape = None
        if draw(st.integers(0, 3)) == 0:
            c = draw(st.sampled_from([c for c in (1, 2, 3, 4, 7, 64) if n % c == 0]))
            shape = [n // c, c]
        return {"hedge": name, "n": n, "mult": mult, "shape": shape}

    return s()


def cases_points():
    @st.composite
    def s(draw):
        name = draw(st.sampled_from(HEDGES))
        kind = draw(st.sampled_from(["1d", "1d", "2d", "single"]))
        if kind == "single":
            xs, shape = [draw(unit_doubles())], None
        elif kind == "1d":
            xs = draw(st.lists(unit_doubles(), min_size=1, max_size=8))
            shape = [len(xs)]
        else:
            r, c = draw(st.integers(1, 3)), draw(st.integers(1, 3))
            xs = draw(st.lists(unit_doubles(), min_size=r * c, max_size=r * c))
            shape = [r, c]
        return {"hedge": name, "xs": xs, "shape": shape, "exact": False,
                "layout": draw(st.sampled_from([None, None, "F", "f32"]))}

    return s()


def run(ctx) -> None:
    reg = sorted(fl.settings.factory_manager.hedge.constructors)
    ctx.direct("registry", lambda c, case: c.check(case["registered"] == HEDGES, "registered-hedges", case),
               [{"registered": reg}])
    n = 4096
    grid = [k / n for k in range(n + 1)]
    for name in HEDGES:
        ctx.direct("points", check_points, [{"hedge": name, "xs": grid, "shape": None, "exact": True}])
        ctx.nt_bulk(n - 1, {"hedge": name, "x": grid[1]})
    ctx.direct("relations", check_relations, [{"xs": grid, "exact": True}])
    ctx.nt_bulk(n - 1)
    ctx.exhaustive_parts.append("all 6 hedges x all x = k/4096, k = 0..4096 (formula, range, fixed points, "
                                "monotonicity, scalar==array, ordering, inverse pairs, involution)")
    ctx.direct("nonfinite", check_nonfinite, [{"x": float("nan")}, {"x": np.array([float("nan"), 0.3])}])
    ctx.direct("layouts", check_layouts, [{"hedge": name} for name in HEDGES])
    ctx.direct("long", check_long, [{"hedge": name, "n": n_, "mult": 1021} for name in HEDGES for n_ in LONG]
               + [{"hedge": name, "n": 65536 * 3 + 6, "mult": 5, "shape": [65536 + 2, 3]} for name in HEDGES])
    ctx.hyp("long", cases_long(), check_long, 60 if ctx.tier == "quick" else 1500)
    ex = 600 if ctx.tier == "quick" else 20000
    ctx.hyp("points", cases_points(), check_points, ex)
    ctx.hyp("relations", st.builds(lambda xs: {"xs": xs, "exact": False},
                                   st.lists(unit_doubles(), min_size=1, max_size=8)), check_relations, ex)


def replay(ctx, prop: str, case) -> None:
    fn = {"points": check_points, "relations": check_relations, "nonfinite": check_nonfinite,
          "layouts": check_layouts, "long": check_long}.get(prop)
    if fn is None:
        return
    ctx.direct(prop, fn, [case])
