"""C18 — FuzzyLite Dataset export is a faithful tabulation of the engine.

Oracle: an independent tabulation — grid size by integer arithmetic, grid values in Fraction, lexicographic row order
(last input fastest), header from the switches, and output cells from an independently built engine processed row by
row with Python floats after restart().
"""

from __future__ import annotations

import io
import math
import re
from fractions import Fraction

import numpy as np
from hypothesis import strategies as st

import fuzzylite as fl
from vlib import build, gen

RULE = ("cases are (General-activation engine spec with 1-4 finite-range inputs, scope, requested size v in 1..2000, "
        "header/inputs/outputs switches, separator, decimals 0..9) or (engine spec, reader content of 1-40 data rows "
        "with blank lines, comment lines, skipped leading lines, extra trailing columns); non-trivial when the table "
        "has > 1 row and (>= 2 inputs, or v is not a perfect n-th power, or the reader has comments / blank / skipped "
        "lines); distinct by the whole case")
ASSUMPTIONS = [
    "EachVariable requests are bounded so that v^n <= row cap (1500 quick / 4096 thorough): a cost bound, not a "
    "property of the code; AllVariables covers v in 1..2000 with all perfect powers and their neighbours planted",
    "at least one of the inputs/outputs switches is on (with both off there are no cells to tabulate)",
    "input cells: |cell - exact grid value| <= 0.5*10^-d (+1e-9 relative) and exactly d decimals in the text; output "
    "cells: |cell - value| <= 0.5*10^-d (+1e-9 relative, NaN/inf by name) where value comes from an independently built "
    "engine processed with Python floats in row order after restart(); the float fed to that engine is min + j*dx "
    "computed as documented, and on a mismatch the correctly rounded exact grid value is tried as well (a grid point "
    "that sits exactly on a discontinuity of a crisp term can fall on either side by one ulp; counted `grid_fallback`)",
    "for tables with more than 300 rows and no lock-previous output, outputs are verified on 120 evenly spaced rows "
    "plus the first and last (processing is history-free, C13); lock-previous engines are always processed in full",
]

SEPS = [" ", ",", ";", "\t"]
NUM = r"-?(?:\d+(?:\.\d+)?|nan|inf)"


def iroot(v: int, n: int) -> int:
    """Largest k >= 1 with k**n <= v (integer arithmetic)."""
    k = 1
    while (k + 1) ** n <= v:
        k += 1
    return k


def expected_grid(spec, scope, v):
    n = len(spec["inputs"])
    k = iroot(v, n) if scope == "AllVariables" else v
    axes = []
    for iv in spec["inputs"]:
        lo, hi = Fraction(iv["min"]), Fraction(iv["max"])
        axes.append([lo + j * (hi - lo) / max(1, k - 1) for j in range(k)])
    return k, axes


def float_axis(iv, k):
    lo, hi = float(iv["min"]), float(iv["max"])
    dx = (hi - lo) / max(1.0, k - 1)
    return [lo + j * dx for j in range(k)]


def rows_of(axes):
    """Lexicographic order, last axis fastest."""
    idx = [0] * len(axes)
    sizes = [len(a) for a in axes]
    total = 1
    for s in sizes:
        total *= s
    for _ in range(total):
        yield tuple(idx)
        for p in range(len(idx) - 1, -1, -1):
            idx[p] += 1
            if idx[p] < sizes[p]:
                break
            idx[p] = 0


def parse_cell(s):
    if s in ("nan", "-nan"):
        return math.nan
    if s == "inf":
        return math.inf
    if s == "-inf":
        return -math.inf
    return float(s)


def close_cell(cell_text, value, d):
    """Is `cell_text` the value printed with d decimals (within half a unit of the last place)?"""
    c = parse_cell(cell_text)
    value = float(value)
    if math.isnan(value) or math.isnan(c):
        return math.isnan(value) and math.isnan(c)
    if math.isinf(value) or math.isinf(c):
        return value == c
    return abs(c - value) <= 0.5 * 10.0 ** (-d) * (1 + 1e-9) + 1e-9 * abs(value) * 10.0 ** (-d) + 4 * math.ulp(value)


def well_formed(cell_text, d):
    if cell_text in ("nan", "inf", "-inf"):
        return True
    return re.fullmatch(r"-?\d+" + (rf"\.\d{{{d}}}" if d > 0 else ""), cell_text) is not None


def reference_outputs(spec, rows, which):
    """Process `rows` (lists of floats) in order with Python floats on an independently built engine.
    `which`: indices of the rows whose outputs are wanted (all rows are processed when lock-previous is on)."""
    e = build.mk_engine(spec)
    e.restart()
    lock = any(v.get("lock_previous") for v in spec["outputs"])
    out = {}
    wanted = set(which)
    for i, row in enumerate(rows):
        if not lock and i not in wanted:
            continue
        for v, x in zip(e.input_variables, row):
            v.value = float(x)
        e.process()
        if i in wanted:
            out[i] = [float(np.asarray(v.value, dtype=float).reshape(-1)[-1]) for v in e.output_variables]
    return out


def dirty_engine(ctx, spec, pre):
    """The engine to export: freshly built, or already used on `pre` rows (the export must start from restart())."""
    e = build.mk_engine(spec)
    for row in pre or []:
        for v, x in zip(e.input_variables, row):
            v.value = float(x)
        e.process()
    if pre:
        ctx.cls("engine_used_before_export")
    return e


def pick_rows(n, lock):
    if n <= 300 or lock:
        return list(range(n))
    step = n / 120.0
    return sorted({0, n - 1} | {int(i * step) for i in range(120)})


def check_table(ctx, case, text, d, sep, headers, want_in, want_out, spec, row_floats_candidates, exact_rows, label):
    lines = text.split("\n")
    ctx.check(lines[-1] == "", label + "-no-trailing-newline", case, {"tail": text[-80:]})
    lines = lines[:-1]
    names = ([v["name"] for v in spec["inputs"]] if want_in else []) + \
            ([v["name"] for v in spec["outputs"]] if want_out else [])
    if headers:
        ctx.check(bool(lines) and lines[0] == sep.join(names), label + "-header", case,
                  {"got": lines[0] if lines else None, "expected": sep.join(names)})
        lines = lines[1:]
    nrows = len(row_floats_candidates[0])
    ctx.check(len(lines) == nrows, label + "-row-count", case, {"got": len(lines), "expected": nrows})
    ni, no = len(spec["inputs"]), len(spec["outputs"])
    ncols = (ni if want_in else 0) + (no if want_out else 0)
    cells = []
    for i, ln in enumerate(lines):
        parts = ln.split(sep)
        if len(parts) != ncols:
            ctx.fail(label + "-column-count", case, {"row": i, "line": ln[:200], "expected_columns": ncols})
        for c in parts:
            if not well_formed(c, d):
                ctx.fail(label + "-cell-format", case, {"row": i, "cell": c, "decimals": d})
        cells.append(parts)
    if want_in:
        for i, parts in enumerate(cells):
            for j in range(ni):
                if not close_cell(parts[j], exact_rows[i][j], d):
                    ctx.fail(label + "-input-cell", case, {"row": i, "column": j, "cell": parts[j],
                                                           "expected": float(exact_rows[i][j])})
    if want_out:
        lock = any(v.get("lock_previous") for v in spec["outputs"])
        which = pick_rows(nrows, lock)
        off = ni if want_in else 0
        bad = None
        for ci, rf in enumerate(row_floats_candidates):
            ref = reference_outputs(spec, rf, which)
            bad = None
            for i in which:
                for j in range(no):
                    if not close_cell(cells[i][off + j], ref[i][j], d):
                        bad = {"row": i, "inputs": rf[i], "output": spec["outputs"][j]["name"],
                               "cell": cells[i][off + j], "expected": ref[i][j]}
                        break
                if bad:
                    break
            if bad is None:
                if ci > 0:
                    ctx.cls("grid_fallback")
                break
        if bad is not None:
            ctx.fail(label + "-output-cell", case, bad)
        ctx.cls("output_rows_verified", len(which))


def check_scope(ctx, case) -> None:
    spec, scope, v, d, sep = case["spec"], case["scope"], int(case["v"]), int(case["d"]), case["sep"]
    headers, want_in, want_out = case["headers"], case["inputs"], case["outputs"]
    ctx.ev()
    n = len(spec["inputs"])
    k, axes = expected_grid(spec, scope, v)
    faxes = [float_axis(iv, k) for iv in spec["inputs"]]
    order = list(rows_of(axes))
    exact_rows = [[axes[a][i] for a, i in enumerate(ix)] for ix in order]
    cand = [[[faxes[a][i] for a, i in enumerate(ix)] for ix in order],
            [[float(axes[a][i]) for a, i in enumerate(ix)] for ix in order]]
    if cand[1] == cand[0]:
        cand = cand[:1]
    e = dirty_engine(ctx, spec, case.get("pre"))
    rules0 = spec["blocks"][0]["rules"] if spec["blocks"] else []
    if case.get("retext") and len(rules0) >= 2:
        # a rule's text is replaced through the public setter and nothing is reloaded by the caller: the export starts
        # from restart(), which reloads the rules, so the dataset tabulates the engine as it is written now
        import copy

        e.rule_blocks[0].rules[0].text = gen.rule_text(rules0[1])
        spec = copy.deepcopy(spec)
        spec["blocks"][0]["rules"][0] = dict(copy.deepcopy(rules0[1]), enabled=rules0[0].get("enabled", True))
        ctx.cls("rule_retexted_before_export")
    early = fl.FldExporter(separator=sep, headers=headers, input_values=want_in, output_values=want_out)
    with fl.settings.context(decimals=d):
        # "printed with the configured decimals": the setting in force when the dataset is written, whether the
        # exporter object was created before or inside the context
        exporter = early if case.get("exporter_first") else fl.FldExporter(
            separator=sep, headers=headers, input_values=want_in, output_values=want_out)
        if case.get("via_file"):
            import pathlib
            import tempfile

            with tempfile.TemporaryDirectory(prefix="pfl_c18_") as tmp:
                path = pathlib.Path(tmp) / "data.fld"
                exporter.to_file_from_scope(path, e, v, getattr(fl.FldExporter.ScopeOfValues, scope))
                text = path.read_text()
            ctx.cls("via_file")
        else:
            text = exporter.to_string_from_scope(e, v, getattr(fl.FldExporter.ScopeOfValues, scope))
    if case.get("exporter_first"):
        ctx.cls("exporter_created_before_decimals_context")
    check_table(ctx, case, text, d, sep, headers, want_in, want_out, spec, cand, exact_rows, "scope")
    ctx.cls("scope:" + scope)
    ctx.cls(f"inputs:{n}")
    ctx.cls(f"decimals:{d}")
    perfect = k ** n == v
    ctx.cls("perfect_power" if perfect and scope == "AllVariables" and n > 1 else "other_size")
    if len(order) > 1 and (n >= 2 or not perfect):
        ctx.nt(case, {"scope": scope, "v": v, "inputs": n, "k": k, "rows": len(order), "decimals": d,
                      "head": text[:300]})


def check_reader(ctx, case) -> None:
    spec, d, sep = case["spec"], int(case["d"]), case["sep"]
    ctx.ev()
    lines = case["lines"]
    skip = int(case["skip"])
    content = "\n".join(ln["text"] for ln in lines) + ("\n" if case.get("final_newline", True) else "")
    data = [ln["row"] for i, ln in enumerate(lines) if i >= skip and ln["kind"] == "data"]
    ni = len(spec["inputs"])
    rows = [[float(x) for x in r[:ni]] for r in data]
    # an input variable with lock-range holds (and therefore tabulates) the value clipped to its range
    shown = [[min(max(x, iv["min"]), iv["max"]) if iv.get("lock_range") and not math.isnan(x) else x
              for x, iv in zip(r, spec["inputs"])] for r in rows]
    e = dirty_engine(ctx, spec, case.get("pre"))
    early = fl.FldExporter(separator=sep, headers=case["headers"], input_values=case["inputs"],
                           output_values=case["outputs"])
    with fl.settings.context(decimals=d):
        exporter = early if case.get("exporter_first") else fl.FldExporter(
            separator=sep, headers=case["headers"], input_values=case["inputs"], output_values=case["outputs"])
        text = exporter.to_string_from_reader(e, io.StringIO(content), skip)
    check_table(ctx, case, text, d, sep, case["headers"], case["inputs"], case["outputs"], spec, [rows], shown,
                "reader")
    kinds = {ln["kind"] for ln in lines}
    ctx.cls("reader_tables")
    for kd in kinds:
        ctx.cls("reader_has:" + kd)
    if len(rows) > 1 and (kinds - {"data"} or skip):
        ctx.nt(case, {"content": content[:400], "skip": skip, "table": text[:300]})


# ---------------------------------------------------------------------------------------------------
def planted_sizes(n):
    out = set()
    k = 1
    while k ** n <= 2001:
        for dv in (-1, 0, 1):
            if 1 <= k ** n + dv <= 2000:
                out.add(k ** n + dv)
        k += 1
    return sorted(out)


@st.composite
def engine_spec(draw):
    ni = draw(st.sampled_from([1, 1, 2, 2, 3, 3, 3, 4]))
    spec = draw(gen.engine(n_in=(ni, ni), n_out=(1, 2), n_blocks=(1, 1), n_rules=(1, 4), depth=2,
                           rg=draw(st.sampled_from(["dec", "dy", "free"]))))
    return spec


@st.composite
def scope_cases(draw, cap):
    spec = draw(engine_spec())
    n = len(spec["inputs"])
    scope = draw(st.sampled_from(["AllVariables", "AllVariables", "EachVariable"]))
    if scope == "AllVariables":
        vmax = min(2000, cap)
        v = draw(st.one_of(st.sampled_from([s for s in planted_sizes(n) if s <= vmax]), st.integers(1, vmax),
                           st.integers(1, 80)))
    else:
        kmax = max(1, int(cap ** (1.0 / n)))
        while (kmax + 1) ** n <= cap:
            kmax += 1
        while kmax ** n > cap:
            kmax -= 1
        v = draw(st.one_of(st.integers(1, min(kmax, 2000)), st.integers(1, min(kmax, 6))))
    want_in, want_out = draw(st.sampled_from([(True, True)] * 4 + [(True, False), (False, True)]))
    pre = [draw(gen.input_row(spec)) for _ in range(draw(st.sampled_from([0, 0, 1, 2])))]
    if draw(st.integers(0, 7)) == 0:
        # an input variable on a descending scale (minimum > maximum): the grid still runs from minimum to maximum
        iv = draw(st.sampled_from(spec["inputs"]))
        if not iv.get("lock_range"):
            iv["min"], iv["max"] = iv["max"], iv["min"]
    return {"spec": spec, "pre": pre, "exporter_first": draw(st.booleans()), "via_file": draw(st.integers(0, 4)) == 0,
            "retext": draw(st.integers(0, 3)) == 0,
            "scope": scope, "v": v, "d": draw(st.sampled_from([0, 1, 2, 3, 3, 3, 4, 6, 9])),
            "sep": draw(st.sampled_from(SEPS)), "headers": draw(st.sampled_from([True, True, False])),
            "inputs": want_in, "outputs": want_out}


@st.composite
def long_lock_previous_cases(draw, cap):
    """One input whose terms cover only parts of the range (no rule fires elsewhere: NaN), a lock-previous output, and
    more than 1024 rows: every row must carry the value held from the previous row, across any internal batching."""
    k = draw(st.integers(2, 3))
    cuts = sorted(draw(st.lists(st.integers(1, 63), min_size=2 * k, max_size=2 * k, unique=True)))
    terms = [{"cls": "Triangle", "p": [cuts[2 * i] / 64, (cuts[2 * i] + cuts[2 * i + 1]) / 128, cuts[2 * i + 1] / 64],
              "h": 1.0, "name": gen.TERM_NAMES[i]} for i in range(k)]
    oterms = [{"cls": "Triangle", "p": [i / 4, i / 4 + 0.125, i / 4 + 0.25], "h": 1.0, "name": gen.TERM_NAMES[i]}
              for i in range(k)]
    spec = {"name": "E", "description": "", "rg": "dy", "profile": "mamdani",
            "inputs": [{"name": "A", "description": "", "enabled": True, "min": 0.0, "max": 1.0, "lock_range": False,
                        "terms": terms}],
            "outputs": [{"name": "Y", "description": "", "enabled": True, "min": 0.0, "max": 1.0, "lock_range": False,
                         "lock_previous": True, "default": draw(st.sampled_from([math.nan, 0.5])),
                         "aggregation": "Maximum", "defuzzifier": {"cls": draw(st.sampled_from(["Centroid", "MeanOfMaximum"])),
                                                                   "resolution": 10}, "terms": oterms}],
            "blocks": [{"name": "rb", "description": "", "enabled": True, "conjunction": "Minimum",
                        "disjunction": "Maximum", "implication": "Minimum", "activation": {"cls": "General"},
                        "rules": [{"ante": {"var": "A", "hedges": [], "term": gen.TERM_NAMES[i]},
                                   "cons": [{"var": "Y", "hedges": [], "term": gen.TERM_NAMES[i]}], "weight": None,
                                   "enabled": True, "tight": False} for i in range(k)]}]}
    # just above 1024 rows, or (one table in four) just above 4096 rows: any internal batching must be invisible
    v = draw(st.one_of(st.integers(1025, min(cap, 2000)), st.integers(1025, min(cap, 2000)),
                       st.integers(1025, min(cap, 2000)), st.integers(4097, 4400)))
    return {"spec": spec, "pre": [], "exporter_first": False, "scope": "EachVariable", "v": v, "d": 3, "sep": " ",
            "headers": True, "inputs": True, "outputs": True}


def fmt_float(x):
    if math.isnan(x):
        return "nan"
    if math.isinf(x):
        return "inf" if x > 0 else "-inf"
    return repr(float(x))


@st.composite
def reader_cases(draw):
    spec = draw(engine_spec())
    ni = len(spec["inputs"])
    extra = draw(st.sampled_from([0, 0, 0, 1, 2]))
    nlines = draw(st.integers(1, 40))
    lines = []
    for _ in range(nlines):
        kind = draw(st.sampled_from(["data"] * 6 + ["blank", "comment", "indented_comment", "spaces"]))
        if kind == "data":
            row = draw(gen.input_row(spec)) + [draw(st.floats(-5, 5)) for _ in range(extra)]
            ws = draw(st.sampled_from([" ", " ", "  ", "\t"]))
            lead = draw(st.sampled_from(["", "", " ", "\t"]))
            lines.append({"kind": "data", "row": row, "text": lead + ws.join(fmt_float(x) for x in row)})
        elif kind == "blank":
            lines.append({"kind": "blank", "text": ""})
        elif kind == "spaces":
            lines.append({"kind": "blank", "text": "   \t"})
        elif kind == "comment":
            lines.append({"kind": "comment", "text": "# 1.0 2.0 3.0 a comment"})
        else:
            lines.append({"kind": "comment", "text": "   #indented comment 4 5 6"})
    skip = draw(st.sampled_from([0, 0, 1, 2, 3]))
    header_lines = [{"kind": "skipped", "text": draw(st.sampled_from(["A B C", "x y", "", "# header", "1 2 3 4 5 6"]))}
                    for _ in range(skip)]
    lines = header_lines + lines
    if not any(ln["kind"] == "data" for ln in lines[skip:]):
        row = draw(gen.input_row(spec)) + [0.0] * extra
        lines.append({"kind": "data", "row": row, "text": " ".join(fmt_float(x) for x in row)})
    want_in, want_out = draw(st.sampled_from([(True, True)] * 4 + [(True, False), (False, True)]))
    pre = [draw(gen.input_row(spec)) for _ in range(draw(st.sampled_from([0, 0, 1, 2])))]
    return {"spec": spec, "pre": pre, "exporter_first": draw(st.booleans()), "lines": lines, "skip": skip, "d": draw(st.sampled_from([0, 1, 3, 3, 6, 9])),
            "sep": draw(st.sampled_from(SEPS)), "headers": draw(st.sampled_from([True, True, False])),
            "inputs": want_in, "outputs": want_out, "final_newline": draw(st.booleans())}


def shard(ctx, shard, nshards, ex, cap):
    ctx.hyp("scope", scope_cases(cap), check_scope, ex)
    ctx.hyp("reader", reader_cases(), check_reader, max(10, ex // 2))
    if cap > 1024:
        ctx.hyp("scope", long_lock_previous_cases(cap), check_scope, max(3, ex // 50))


def run(ctx) -> None:
    import sys

    from vlib import runner

    mod = sys.modules[__name__]
    if ctx.tier == "quick":
        runner.run_sharded(ctx, mod, "shard", 8, ex=160, cap=1500)
    else:
        runner.run_sharded(ctx, mod, "shard", 16, ex=1000, cap=4096)


def replay(ctx, prop, case) -> None:
    fn = {"scope": check_scope, "reader": check_reader}.get(prop)
    if fn:
        ctx.direct(prop, fn, [case])
