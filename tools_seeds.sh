#!/bin/bash
# Development helper: quick tier of every check at several seeds (soundness on the unchanged tree). usage: tools_seeds.sh 2 3 4 ...
cd "$(dirname "$0")"
for s in "$@"; do
  for p in C01 C02 C03 C04 C05 C06 C07 C08 C09 C10 C11 C12 C13 C14 C15 C16 C17 C18 C19 C20; do
    out=$(VERIF_SEED=$s /venv/bin/python run.py $p --tier quick 2>&1); r=$?
    echo "seed=$s $(echo "$out" | grep -E "^$p tier" | cut -c1-110) exit=$r"
    [ $r -ne 0 ] && echo "$out" | grep -E "VIOLATION|label:|detail:|HARNESS" | cut -c1-600
  done
done
git checkout -q evidence 2>/dev/null
