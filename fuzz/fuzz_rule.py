#!/venv/bin/python
"""atheris target for C16 (rule text). Bytes decode to raw text (mode 0) or to a seed rule + token-level mutation
operations; the oracle of checks/c16_malformed.py runs inside the target."""
import common  # noqa: F401  (must come first: instruments fuzzylite)
import atheris
from common import MiniCtx, Stop

from checks import c16_malformed as c16
from vlib import textmut as tm

SEEDS = [
    "if Ambient is DARK then Power is HIGH",
    "if Ambient is not very DARK and Speed is FAST then Power is LOW and Fan is ON with 0.500",
    "if ( Ambient is DARK or Ambient is MEDIUM ) and Speed is any then Fan is very OFF",
    "if Ambient is BRIGHT or ( Speed is SLOW and Power is LOW ) then Power is somewhat HIGH with 0.250",
    "if Speed is seldom extremely FAST then Fan is ON and Power is not LOW",
    "if ( ( Ambient is MEDIUM ) ) then Power is LOW with 1.000",
    "if Power is HIGH and Fan is any then Fan is OFF",
]
CTX = MiniCtx()
ENGINES = (c16.rule_engine(), c16.rule_engine())
KINDS = ["delete", "duplicate", "substitute", "insert", "truncate", "swap", "glue"]


def decode(data: bytes) -> str:
    fdp = atheris.FuzzedDataProvider(data)
    mode = fdp.ConsumeIntInRange(0, 3)
    if mode == 0:
        return fdp.ConsumeUnicodeNoSurrogates(200)
    toks = SEEDS[fdp.ConsumeIntInRange(0, len(SEEDS) - 1)].split()
    ops = []
    for _ in range(fdp.ConsumeIntInRange(1, 4)):
        ops.append([KINDS[fdp.ConsumeIntInRange(0, len(KINDS) - 1)], fdp.ConsumeIntInRange(0, 40),
                    fdp.ConsumeIntInRange(0, len(tm.RULE_POOL) - 1)])
    text = " ".join(tm.mutate_tokens(toks, ops, tm.RULE_POOL))
    if mode == 3:
        text = text.replace("( ", "(").replace(" )", ")")
    return text


def test_one_input(data: bytes) -> None:
    text = decode(data)
    case = {"text": text, "kind": "fuzz_rule_text"}
    try:
        outcome = c16.check_rule_text(CTX, case, text, engines=ENGINES)
        CTX.cls("outcome:" + outcome)
        if text.split()[:1] == ["if"] and text not in SEEDS:
            CTX.nt(text)
    except Stop:
        pass
    CTX.tick()


if __name__ == "__main__":
    import struct

    seeds = [bytes([1 + i % 3, i, 1, 0, 0, 0]) for i in range(len(SEEDS))] + [b"\x00" + s.encode() for s in SEEDS]
    common.main(test_one_input, seeds, tm.RULE_KEYWORDS + tm.HEDGES + list(tm.IN_VARS) + list(tm.OUT_VARS) +
                ["DARK", "MEDIUM", "BRIGHT", "SLOW", "FAST", "LOW", "HIGH", "OFF", "ON", "(", ")", "0.5"])
