#!/venv/bin/python
"""atheris target for C17 (formula text): loading either succeeds or raises SyntaxError/ValueError; for loaded
formulas whose evaluation is defined, an RPN machine on the tree's postfix gives the value evaluate() gives."""
import math

import common  # noqa: F401  (must come first: instruments fuzzylite)
import atheris
from common import MiniCtx, Stop

from checks import c17_function as c17
from vlib import refformula as rf
from vlib import textmut as tm

SEEDS = ["2 * x + 1", "~ 2 ^ 2 - sin ( pi * x ) / 3", "pow ( a , 2 ) % 3 + max ( a , b ) * .- 1.5",
         "gt ( x , 0.5 ) * ( a + b ) or ! lt ( x , 0 ) and 1", "atan2 ( x , abs ( a ) + 1 ) ** 2 ** 0.5",
         "round ( 2.5 * x ) .+ 1", "1"]
POOL = (list(rf.ARITY) + ["(", ")", ",", "x", "a", "b", "1", "2.5", "0", "0.125", "nan", "inf", "( )", ")(", "1e3", ".5",
                          "5.", "-", "..", ""])
CTX = MiniCtx()
KINDS = ["delete", "duplicate", "substitute", "insert", "truncate", "swap", "glue"]


def decode(data: bytes) -> str:
    fdp = atheris.FuzzedDataProvider(data)
    mode = fdp.ConsumeIntInRange(0, 3)
    if mode == 0:
        return fdp.ConsumeUnicodeNoSurrogates(120)
    toks = SEEDS[fdp.ConsumeIntInRange(0, len(SEEDS) - 1)].split()
    ops = []
    for _ in range(fdp.ConsumeIntInRange(1, 4)):
        ops.append([KINDS[fdp.ConsumeIntInRange(0, len(KINDS) - 1)], fdp.ConsumeIntInRange(0, 40),
                    fdp.ConsumeIntInRange(0, len(POOL) - 1)])
    sep = "" if mode == 3 else " "
    toks = tm.mutate_tokens(toks, ops, POOL)
    out = []
    for t in toks:
        if out and out[-1] and t and (out[-1][-1].isalnum() or out[-1][-1] in "._") and (t[0].isalnum() or t[0] in "._"):
            out.append(" ")
        elif out:
            out.append(sep)
        out.append(t)
    return "".join(out)


def test_one_input(data: bytes) -> None:
    text = decode(data)
    try:
        c17.check_fuzz_text(CTX, {"text": text})
    except Stop:
        pass
    CTX.tick()


if __name__ == "__main__":
    seeds = [bytes([1 + i % 3, i, 1, 0, 0, 0]) for i in range(len(SEEDS))] + [b"\x00" + s.encode() for s in SEEDS]
    common.main(test_one_input, seeds, list(rf.ARITY) + ["(", ")", ",", "x", "a", "b", "1", "2.5"])
