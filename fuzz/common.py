"""Shared plumbing of the atheris targets: environment, instrumented import of fuzzylite, a minimal ctx that records
instead of raising to the fuzzer (so the campaign continues behind a failure), periodic stats file."""

from __future__ import annotations

import hashlib
import json
import os
import sys

ROOT = os.path.dirname(os.path.dirname(os.path.abspath(__file__)))
sys.path.insert(0, ROOT)
from vlib import env  # noqa: E402

env.ensure_deps(need_atheris=True)
import atheris  # noqa: E402

with atheris.instrument_imports(include=["fuzzylite"], enable_loader_override=False):
    fl = env.import_fuzzylite()

import warnings  # noqa: E402

warnings.filterwarnings("ignore")


class Stop(Exception):
    pass


class MiniCtx:
    """The subset of vlib.runner.Ctx the oracles use; failures are recorded per label (first + smallest example)."""

    def __init__(self):
        self.iterations = 0
        self.classes = {}
        self.nt_set = set()
        self.violations = {}
        self.stats_path = os.environ.get("VERIF_FUZZ_STATS")
        self.dirty = False

    def ev(self, n=1):
        pass

    def cls(self, name, n=1):
        self.classes[name] = self.classes.get(name, 0) + n

    def nt(self, key, sample=None):
        self.nt_set.add(hashlib.blake2b(repr(key).encode(), digest_size=8).digest())

    def note(self, s):
        pass

    def fail(self, label, case, detail=None):
        text = (detail or {}).get("text") if isinstance(detail, dict) else None
        if text is None:
            text = case.get("text", "")
        old = self.violations.get(label)
        if old is None or len(text) < len(old["text"]):
            self.violations[label] = {"label": label, "text": text, "detail": {k: str(v)[:300] for k, v in (detail or {}).items()}}
            self.dirty = True
        raise Stop()

    def check(self, cond, label, case, detail=None):
        if not cond:
            self.fail(label, case, detail)

    def tick(self):
        self.iterations += 1
        if self.stats_path and (self.dirty or self.iterations % 2000 == 0):
            self.flush()

    def flush(self):
        self.dirty = False
        tmp = self.stats_path + ".tmp"
        with open(tmp, "w") as f:
            json.dump({"iterations": self.iterations, "classes": self.classes,
                       "distinct_nontrivial": len(self.nt_set), "violations": list(self.violations.values())}, f)
        os.replace(tmp, self.stats_path)


def main(test_one_input, seed_inputs, tokens):
    argv = [a for a in sys.argv if a != "--seed-corpus"]
    if "--seed-corpus" in sys.argv:
        cdir = argv[-1]
        for i, b in enumerate(seed_inputs):
            with open(os.path.join(cdir, f"seed{i:03d}"), "wb") as f:
                f.write(b)
    dpath = os.path.join(os.path.dirname(os.environ.get("VERIF_FUZZ_STATS") or "/dev/shm/x"), "dict.txt")
    try:
        with open(dpath, "w") as f:
            for t in tokens:
                if t and all(32 < ord(c) < 127 and c not in '"\\' for c in t):
                    f.write(f'"{t}"\n')
        argv.insert(1, f"-dict={dpath}")
    except OSError:
        pass
    atheris.Setup(argv, test_one_input)
    atheris.Fuzz()
