#!/venv/bin/python
"""atheris target for C16 (FLL text). Bytes decode to raw text (mode 0) or to a seed document + line/token-level
mutation operations; the oracle of checks/c16_malformed.py runs inside the target."""
import common  # noqa: F401  (must come first: instruments fuzzylite)
import atheris
from common import MiniCtx, Stop, fl

from checks import c16_malformed as c16
from vlib import textmut as tm

SMALL = """Engine: tiny
InputVariable: A
  enabled: true
  range: 0.000 1.000
  lock-range: false
  term: low Triangle 0.000 0.250 0.500
  term: high Ramp 0.500 1.000 0.800
OutputVariable: Y
  enabled: true
  range: 0.000 1.000
  lock-range: true
  aggregation: Maximum
  defuzzifier: Centroid 10
  default: nan
  lock-previous: false
  term: off Discrete 0.000 1.000 0.500 0.000
  term: on Sigmoid 0.500 10.000
RuleBlock: rules
  enabled: true
  conjunction: Minimum
  disjunction: Maximum
  implication: AlgebraicProduct
  activation: Threshold > 0.100
  rule: if A is low then Y is off
  rule: if A is not high or A is any then Y is very on with 0.500
"""
TS = """Engine: ts
description: a Takagi-Sugeno engine
InputVariable: X
  range: -1.000 1.000
  term: neg ZShape -1.000 0.000
  term: pos SShape 0.000 1.000
OutputVariable: F
  range: -inf inf
  defuzzifier: WeightedAverage TakagiSugeno
  default: 0.000
  lock-previous: true
  term: a Linear 1.000 0.000
  term: b Function 2*X+1
  term: c Constant 3.000
RuleBlock:
  activation: First 1 0.000
  rule: if X is neg then F is a
  rule: if X is pos then F is b and F is c
"""
SEEDS = [SMALL, TS, fl.FllExporter().to_string(c16.rule_engine())]
CTX = MiniCtx()
KINDS = ["drop", "dup", "swap", "truncate", "cut", "insert", "key", "value", "tokdel", "tokdup", "tokword", "nocolon"]


def decode(data: bytes) -> str:
    fdp = atheris.FuzzedDataProvider(data)
    mode = fdp.ConsumeIntInRange(0, 3)
    if mode == 0:
        return fdp.ConsumeUnicodeNoSurrogates(400)
    lines = SEEDS[fdp.ConsumeIntInRange(0, len(SEEDS) - 1)].split("\n")
    ops = []
    for _ in range(fdp.ConsumeIntInRange(1, 4)):
        ops.append([KINDS[fdp.ConsumeIntInRange(0, len(KINDS) - 1)], fdp.ConsumeIntInRange(0, 60),
                    fdp.ConsumeIntInRange(0, 200)])
    return "\n".join(tm.mutate_lines(lines, ops))


def test_one_input(data: bytes) -> None:
    text = decode(data)
    case = {"text": text, "kind": "fuzz_fll_text"}
    try:
        outcome = c16.check_fll_text(CTX, case, text)
        CTX.cls("outcome:" + outcome)
        if text not in SEEDS and any(k in text for k in ("Engine", "InputVariable", "OutputVariable", "RuleBlock")):
            CTX.nt(text)
    except Stop:
        pass
    CTX.tick()


if __name__ == "__main__":
    seeds = [bytes([1 + i % 3, i, 1, 0, 0, 0]) for i in range(len(SEEDS))] + [b"\x00" + s.encode()[:380] for s in SEEDS]
    common.main(test_one_input, seeds, tm.FLL_KEYS + ["Triangle", "Centroid", "Maximum", "Minimum", "General", "true",
                                                     "false", "none", "nan", "inf", ":", "#"])
