#!/venv/bin/python
"""Single entry point: run.py <Cxx> [--tier quick|thorough] [--replay FILE] [--seed N]"""
import os
import sys

sys.path.insert(0, os.path.dirname(os.path.abspath(__file__)))
from vlib import runner  # noqa: E402

if __name__ == "__main__":
    sys.exit(runner.main(sys.argv[1:]))
