"""Reference mathematics written from the class docstrings of fuzzylite/term.py, norm.py, hedge.py,
defuzzifier.py in scalar Python (math / fractions). Does NOT import fuzzylite.

Term spec: {"cls": <class name>, "p": [parameters in constructor order], "h": height}
(Discrete: p = [x0, y0, x1, y1, ...]).

Discrepancies between docs and obvious intent (listed in DESIGN §4): ZShape docstring says "1 if x <= s"
(means h); NilpotentMaximum says "a+b<0" in one place (means <1); SigmoidDifference documents h*(a-b)
but implements h*|a-b| (see sigdiff handling in checks/c03).
"""

from __future__ import annotations

import math
from fractions import Fraction as F

INF = math.inf
NAN = math.nan
EPS = 2.0 ** -52

MONOTONIC = ("Arc", "Concave", "Ramp", "Sigmoid", "SShape", "ZShape")
SHAPES = ("Arc", "Bell", "Binary", "Concave", "Cosine", "Discrete", "Gaussian", "GaussianProduct", "PiShape", "Ramp",
          "Rectangle", "SemiEllipse", "Sigmoid", "SigmoidDifference", "SigmoidProduct", "Spike", "SShape", "Trapezoid",
          "Triangle", "ZShape")


def _exp(v: float) -> float:
    try:
        return math.exp(v)
    except OverflowError:
        return INF


def _sigmoid(x: float, i: float, s: float) -> float:
    z = -s * (x - i)
    if math.isnan(z):
        return NAN
    return 1.0 / (1.0 + _exp(z))


def _gauss(x: float, m: float, sd: float) -> float:
    d = x - m
    if math.isinf(d):
        return 0.0
    return _exp(-(d * d) / (2.0 * sd * sd))


def _sshape(x: float, s: float, e: float) -> float:
    if x <= s:
        return 0.0
    if x >= e:
        return 1.0
    if F(x) <= (F(s) + F(e)) / 2:
        return 2.0 * ((x - s) / (e - s)) ** 2
    return 1.0 - 2.0 * ((x - e) / (e - s)) ** 2


def _zshape(x: float, s: float, e: float) -> float:
    if x <= s:
        return 1.0
    if x >= e:
        return 0.0
    if F(x) < (F(s) + F(e)) / 2:
        return 1.0 - 2.0 * ((x - s) / (e - s)) ** 2
    return 2.0 * ((x - e) / (e - s)) ** 2


def _lin(num_a: float, num_b: float, den_a: float, den_b: float) -> float:
    """(num_a - num_b) / (den_a - den_b) in exact rational arithmetic, rounded once."""
    return float((F(num_a) - F(num_b)) / (F(den_a) - F(den_b)))


def shape(cls: str, p: list, x: float) -> float:
    """Documented membership of x for height 1 (x is not NaN)."""
    if cls == "Arc":
        s, e = p
        r = e - s
        if s < e:
            if x < s:
                return 0.0
            if x >= e:
                return 1.0
        else:
            if x > s:
                return 0.0
            if x <= e:
                return 1.0
        rad = float(F(r) ** 2 - (F(x) - F(e)) ** 2)
        return math.sqrt(max(rad, 0.0)) / abs(r)
    if cls == "Bell":
        c, w, s = p
        if math.isinf(x):
            return 0.0
        return 1.0 / (1.0 + math.pow(abs((x - c) / w), 2.0 * s))
    if cls == "Binary":
        s, d = p
        return 1.0 if ((d == INF and x >= s) or (d == -INF and x <= s)) else 0.0
    if cls == "Concave":
        i, e = p
        if i <= e and x < e:
            if x == -INF:
                return 0.0
            return float((F(e) - F(i)) / (2 * F(e) - F(i) - F(x)))
        if i > e and x > e:
            if x == INF:
                return 0.0
            return float((F(i) - F(e)) / (F(i) - 2 * F(e) + F(x)))
        return 1.0
    if cls == "Cosine":
        c, w = p
        if math.isinf(x):
            return 0.0
        if F(c) - F(w) / 2 <= F(x) <= F(c) + F(w) / 2:
            return 0.5 * (1.0 + math.cos(2.0 / w * math.pi * (x - c)))
        return 0.0
    if cls == "Discrete":
        xs, ys = p[0::2], p[1::2]
        if x <= xs[0]:
            return ys[0]
        if x >= xs[-1]:
            return ys[-1]
        for k in range(len(xs) - 1):
            if xs[k] <= x <= xs[k + 1]:
                if xs[k + 1] == xs[k]:
                    return ys[k]
                t = (F(x) - F(xs[k])) / (F(xs[k + 1]) - F(xs[k]))
                return float(F(ys[k]) + t * (F(ys[k + 1]) - F(ys[k])))
        raise AssertionError("unsorted Discrete")
    if cls == "Gaussian":
        m, sd = p
        return _gauss(x, m, sd)
    if cls == "GaussianProduct":
        ma, sa, mb, sb = p
        a = _gauss(x, ma, sa) if x < ma else 1.0
        b = _gauss(x, mb, sb) if x > mb else 1.0
        return a * b
    if cls == "PiShape":
        a, b, c, d = p
        return _sshape(x, a, b) * _zshape(x, c, d)
    if cls == "Ramp":
        s, e = p
        if s < e:
            if x <= s:
                return 0.0
            if x >= e:
                return 1.0
            return _lin(x, s, e, s)
        if x >= s:
            return 0.0
        if x <= e:
            return 1.0
        return _lin(s, x, s, e)
    if cls == "Rectangle":
        s, e = min(p), max(p)
        return 1.0 if s <= x <= e else 0.0
    if cls == "SemiEllipse":
        s, e = min(p), max(p)
        if not (s <= x <= e):
            return 0.0
        r = (F(e) - F(s)) / 2
        c = F(s) + r
        rad = float(r * r - (F(x) - c) ** 2)
        return math.sqrt(max(rad, 0.0)) / float(r)
    if cls == "Sigmoid":
        i, s = p
        return _sigmoid(x, i, s)
    if cls == "SigmoidDifference":
        left, rising, falling, right = p
        return _sigmoid(x, left, rising) - _sigmoid(x, right, falling)
    if cls == "SigmoidProduct":
        left, rising, falling, right = p
        return _sigmoid(x, left, rising) * _sigmoid(x, right, falling)
    if cls == "Spike":
        c, w = p
        if math.isinf(x):
            return 0.0
        return _exp(-abs(10.0 / w * (x - c)))
    if cls == "SShape":
        return _sshape(x, *p)
    if cls == "ZShape":
        return _zshape(x, *p)
    if cls == "Trapezoid":
        a, b, c, d = p
        if x < a or x > d:
            return 0.0
        if (b <= x <= c) or (a == -INF and x < b) or (d == INF and x > c):
            return 1.0
        if x < b:
            return _lin(x, a, b, a)
        return _lin(d, x, d, c)
    if cls == "Triangle":
        a, b, c = p
        if x < a or x > c:
            return 0.0
        if x == b or (a == -INF and x < b) or (c == INF and x > b):
            return 1.0
        if x < b:
            return _lin(x, a, b, a)
        return _lin(c, x, c, b)
    raise KeyError(cls)


def mu(spec: dict, x: float) -> float:
    """Documented membership (scaled by height); NaN iff x is NaN. Constant returns its value always."""
    cls = spec["cls"]
    if cls == "Constant":
        return float(spec["p"][0])
    if math.isnan(x):
        return NAN
    return float(spec.get("h", 1.0)) * shape(cls, [float(v) for v in spec["p"]], float(x))


def breakpoints(spec: dict) -> list[float]:
    """Every x where the documented definition changes branch (plus centres/midpoints)."""
    cls, p = spec["cls"], [float(v) for v in spec["p"]]
    if cls in ("Arc", "Ramp", "Rectangle", "Concave"):
        return [p[0], p[1]]
    if cls == "SemiEllipse":
        return [p[0], p[1], (p[0] + p[1]) / 2]
    if cls in ("SShape", "ZShape"):
        return [p[0], p[1], 0.5 * (p[0] + p[1])]
    if cls == "PiShape":
        return [p[0], p[1], p[2], p[3], 0.5 * (p[0] + p[1]), 0.5 * (p[2] + p[3])]
    if cls in ("Trapezoid", "Triangle"):
        return [v for v in p if math.isfinite(v)]
    if cls == "Binary":
        return [p[0]]
    if cls in ("Bell",):
        return [p[0], p[0] - p[1], p[0] + p[1]]
    if cls in ("Cosine", "Spike"):
        return [p[0], p[0] - 0.5 * p[1], p[0] + 0.5 * p[1]]
    if cls == "Gaussian":
        return [p[0], p[0] - p[1], p[0] + p[1]]
    if cls == "GaussianProduct":
        return [p[0], p[2]]
    if cls == "Sigmoid":
        return [p[0]]
    if cls in ("SigmoidDifference", "SigmoidProduct"):
        return [p[0], p[3]]
    if cls == "Discrete":
        return p[0::2]
    return []


def direction(spec: dict) -> int:
    """+1 increasing, -1 decreasing for the monotonic terms."""
    cls, p = spec["cls"], spec["p"]
    if cls in ("Arc", "Ramp"):
        return 1 if p[0] < p[1] else -1
    if cls == "Concave":
        return 1 if p[0] <= p[1] else -1
    if cls == "Sigmoid":
        return 1 if p[1] > 0 else -1
    if cls == "SShape":
        return 1
    if cls == "ZShape":
        return -1
    raise KeyError(cls)


def kappa(spec: dict, x: float = 0.0) -> float:
    """Conditioning M/w of a term at x: M largest magnitude among location parameters and x, w smallest
    scale (distance between distinct location parameters, width, sigma, 1/|slope|), times the slope factor of Bell."""
    cls, p = spec["cls"], [float(v) for v in spec["p"]]
    fin = lambda vs: [abs(v) for v in vs if math.isfinite(v)]  # noqa: E731
    xm = abs(x) if math.isfinite(x) else 0.0
    factor = 1.0
    if cls in ("Arc", "Ramp", "Rectangle", "SemiEllipse", "SShape", "ZShape", "Concave"):
        loc, w = p, abs(p[1] - p[0])
    elif cls in ("PiShape", "Trapezoid", "Triangle"):
        loc = p
        f = sorted(set(v for v in p if math.isfinite(v)))
        w = min([b - a for a, b in zip(f, f[1:])] or [1.0])
    elif cls == "Discrete":
        loc = p[0::2]
        w = min([b - a for a, b in zip(loc, loc[1:]) if b > a] or [1.0])
    elif cls == "Bell":
        loc, w, factor = [p[0]], p[1], max(1.0, 2 * p[2])
    elif cls in ("Cosine", "Spike"):
        loc, w = [p[0]], abs(p[1]) / (10.0 if cls == "Spike" else 6.3)
    elif cls == "Gaussian":
        loc, w = [p[0]], p[1]
    elif cls == "GaussianProduct":
        loc, w = [p[0], p[2]], min(p[1], p[3])
    elif cls == "Sigmoid":
        loc, w = [p[0]], 1.0 / abs(p[1])
    elif cls in ("SigmoidDifference", "SigmoidProduct"):
        loc, w = [p[0], p[3]], 1.0 / max(abs(p[1]), abs(p[2]))
    elif cls == "Binary":
        return 1.0
    else:
        return 1.0
    m = max(fin(loc) + [xm, 1e-300])
    # a quadratic dependence on the normalised argument (Gaussian, Bell) amplifies by the argument itself
    if cls in ("Gaussian", "GaussianProduct", "Bell") and math.isfinite(x):
        factor *= max(1.0, min(40.0, max(abs(x - c) for c in loc) / w))
    return max(1.0, m / max(w, 1e-300)) * factor


def tol(spec: dict, x: float = 0.0, sqrt_variant: bool = False) -> float:
    """Tolerance policy of DESIGN §4 for a membership degree of this term at x."""
    h = float(spec.get("h", 1.0))
    k = kappa(spec, x)
    if sqrt_variant:
        return h * (1e-9 + 4.0 * math.sqrt(EPS * (1.0 + k))) + 1e-12
    return h * (1e-9 + 64.0 * EPS * k) + 1e-12


# ------------------------------------------------------------------------------------------------
# Tsukamoto inverses (documented in the tsukamoto() docstrings); y in (0, h)
# ------------------------------------------------------------------------------------------------
def tsukamoto(spec: dict, y: float) -> float:
    cls, p, h = spec["cls"], [float(v) for v in spec["p"]], float(spec.get("h", 1.0))
    if cls == "Arc":
        s, e = p
        r = e - s
        sign = -1.0 if s < e else 1.0
        return e + sign * math.sqrt(max(r * r - (y * r / h) ** 2, 0.0))
    if cls == "Concave":
        i, e = p
        return h * (i - e) / y + 2 * e - i
    if cls == "Ramp":
        s, e = p
        return s + (e - s) * y / h
    if cls == "Sigmoid":
        i, s = p
        return i + math.log(h / y - 1.0) / -s
    if cls == "SShape":
        s, e = p
        return s + (e - s) * math.sqrt(y / (2 * h)) if y <= h / 2 else e - (e - s) * math.sqrt((h - y) / (2 * h))
    if cls == "ZShape":
        s, e = p
        return e - (e - s) * math.sqrt(y / (2 * h)) if y <= h / 2 else s + (e - s) * math.sqrt((h - y) / (2 * h))
    raise KeyError(cls)


# ------------------------------------------------------------------------------------------------
# Norms and hedges in floats (for the reference interpreter; exact versions live in checks/c04, c05)
# ------------------------------------------------------------------------------------------------
def _div(a: float, b: float) -> float:
    """IEEE division (numpy semantics): x/0 = +-inf, 0/0 = nan."""
    if b == 0.0:
        if a == 0.0 or math.isnan(a):
            return NAN
        return math.copysign(INF, a) * math.copysign(1.0, b)
    return a / b


def norm(name: str, a: float, b: float) -> float:
    if name == "AlgebraicProduct":
        return a * b
    if name == "BoundedDifference":
        return max(0.0, a + b - 1.0)
    if name == "DrasticProduct":
        return min(a, b) if max(a, b) == 1.0 else 0.0
    if name == "EinsteinProduct":
        return _div(a * b, 2.0 - (a + b - a * b))
    if name == "HamacherProduct":
        return _div(a * b, a + b - a * b) if a + b != 0.0 else 0.0
    if name == "Minimum":
        return min(a, b)
    if name == "NilpotentMinimum":
        return min(a, b) if a + b > 1.0 else 0.0
    if name == "AlgebraicSum":
        return a + b - a * b
    if name == "BoundedSum":
        return min(1.0, a + b)
    if name == "DrasticSum":
        return max(a, b) if min(a, b) == 0.0 else 1.0
    if name == "EinsteinSum":
        return _div(a + b, 1.0 + a * b)
    if name == "HamacherSum":
        return _div(a + b - 2.0 * a * b, 1.0 - a * b) if a * b != 1.0 else 1.0
    if name == "Maximum":
        return max(a, b)
    if name == "NilpotentMaximum":
        return max(a, b) if a + b < 1.0 else 1.0
    if name == "NormalizedSum":
        return (a + b) / max(1.0, a + b)
    if name == "UnboundedSum":
        return a + b
    raise KeyError(name)


def norm_margin(name: str, a: float, b: float) -> float:
    """Distance of (a,b) from a discontinuity of the norm (inf for continuous norms)."""
    if name in ("NilpotentMinimum", "NilpotentMaximum"):
        return abs(a + b - 1.0)
    if name == "DrasticProduct":
        return min(abs(1.0 - a), abs(1.0 - b)) if max(a, b) != 1.0 else INF
    if name == "DrasticSum":
        return min(abs(a), abs(b)) if min(a, b) != 0.0 else INF
    return INF


def _sqrt(v: float) -> float:
    return math.sqrt(v) if v >= 0.0 else NAN


def hedge(name: str, x: float) -> float:
    """Documented hedge formulas with IEEE semantics outside [0,1] (degrees aggregated with UnboundedSum may exceed 1)."""
    if name == "any":
        return 1.0
    if name == "extremely":
        return 2.0 * x * x if x <= 0.5 else 1.0 - 2.0 * (1.0 - x) * (1.0 - x)
    if name == "not":
        return 1.0 - x
    if name == "seldom":
        return _sqrt(x / 2.0) if x <= 0.5 else 1.0 - _sqrt((1.0 - x) / 2.0)
    if name == "somewhat":
        return _sqrt(x)
    if name == "very":
        return x * x
    raise KeyError(name)


TNORMS = ["AlgebraicProduct", "BoundedDifference", "DrasticProduct", "EinsteinProduct", "HamacherProduct", "Minimum",
          "NilpotentMinimum"]
SNORMS = ["AlgebraicSum", "BoundedSum", "DrasticSum", "EinsteinSum", "HamacherSum", "Maximum", "NilpotentMaximum",
          "NormalizedSum", "UnboundedSum"]
HEDGES = ["any", "extremely", "not", "seldom", "somewhat", "very"]


LOCATION_PARAMS = {"Arc": [0, 1], "Bell": [0], "Binary": [0], "Concave": [0, 1], "Cosine": [0], "Gaussian": [0],
                   "GaussianProduct": [0, 2], "PiShape": [0, 1, 2, 3], "Ramp": [0, 1], "Rectangle": [0, 1],
                   "SemiEllipse": [0, 1], "Sigmoid": [0], "SigmoidDifference": [0, 3], "SigmoidProduct": [0, 3],
                   "Spike": [0], "SShape": [0, 1], "ZShape": [0, 1], "Trapezoid": [0, 1, 2, 3], "Triangle": [0, 1, 2]}


def translate(spec: dict, c: float) -> dict:
    """The same term moved by c along the x axis."""
    p = list(spec["p"])
    if spec["cls"] == "Discrete":
        for i in range(0, len(p), 2):
            p[i] = p[i] + c
    else:
        for i in LOCATION_PARAMS[spec["cls"]]:
            p[i] = p[i] + c
    return dict(spec, p=p)
