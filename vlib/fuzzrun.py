"""Run an atheris target of fuzz/ as a sub-process campaign and merge what it measured into the check's Ctx."""

from __future__ import annotations

import json
import os
import shutil
import subprocess
import sys
import tempfile

from . import env


def available() -> bool:
    try:
        env.ensure_deps(need_atheris=True)
        import atheris  # noqa: F401

        return True
    except BaseException:  # noqa: BLE001
        return False


def run_campaign(ctx, target: str, runs: int, corpus: bool, replay_prop: str, replay_fn, max_len: int = 256) -> None:
    """`replay_fn(ctx, case)` re-checks a text the target flagged, inside the runner (so that the violation, its
    replay file and known-finding matching go through the normal path)."""
    outdir = tempfile.mkdtemp(prefix="pfl_fuzz_")
    try:
        stats = os.path.join(outdir, "stats.json")
        cdir = os.path.join(outdir, "corpus")
        os.makedirs(cdir)
        cmd = [sys.executable, os.path.join(env.ROOT, "fuzz", target + ".py"), f"-runs={runs}", f"-seed={ctx.seed}",
               f"-max_len={max_len}", "-timeout=60", "-rss_limit_mb=4096", f"-artifact_prefix={outdir}/"]
        if corpus:
            cmd.append("--seed-corpus")
        cmd.append(cdir)
        envv = dict(os.environ, VERIF_FUZZ_STATS=stats, VERIF_REPO=env.REPO, PYTHONHASHSEED="0")
        r = subprocess.run(cmd, env=envv, capture_output=True, text=True, timeout=7200, cwd=os.path.join(env.ROOT, "fuzz"))
        tag = f"atheris:{target}:{'seeded' if corpus else 'empty'}"
        data = {}
        if os.path.exists(stats):
            with open(stats) as f:
                data = json.load(f)
        ctx.ev(int(data.get("iterations", 0)))
        ctx.cls(tag + ":iterations", int(data.get("iterations", 0)))
        for k, v in data.get("classes", {}).items():
            ctx.cls(f"{tag}:{k}", int(v))
        ctx.nt_bulk(int(data.get("distinct_nontrivial", 0)))
        for v in data.get("violations", []):
            ctx.direct(replay_prop, replay_fn, [{"text": v["text"], "kind": replay_prop}])
        if r.returncode != 0 and not data.get("iterations"):
            from .runner import HarnessError

            raise HarnessError(f"{tag}: fuzz target exited {r.returncode} before its first iteration:\n"
                               f"{(r.stderr or '')[-800:]}")
        if r.returncode != 0:
            ctx.note(f"{tag}: libFuzzer exited {r.returncode} after {data.get('iterations')} iterations "
                     f"(crash/timeout artefact, if any, is not a property verdict): {(r.stderr or '')[-200:]!r}")
    finally:
        shutil.rmtree(outdir, ignore_errors=True)
