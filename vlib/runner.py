"""Runner shared by all checks: seeds, tiers, Hypothesis wiring, sharding, counters, evidence,
violations + replay files, known-finding matching.

Contract (see DESIGN.md §2): exit 0 = property held on everything explored; exit 1 + a line
`VIOLATION property=<id> replay=<path>` per root cause otherwise; exit 2 = harness error.
"""

from __future__ import annotations

import hashlib
import json
import math
import multiprocessing
import os
import sys
import time
import traceback
from collections import Counter
from typing import Any, Callable, Iterable

from . import env

ROOT = env.ROOT
MAX_ROOT_CAUSES = 6  # re-runs of a Hypothesis property after a (recorded) failure bucket (3 in the quick tier)


# ------------------------------------------------------------------------------------------------
# JSON encoding of cases (floats incl. nan/inf, numpy scalars/arrays, tuples)
# ------------------------------------------------------------------------------------------------
def enc(o: Any) -> Any:
    import numpy as np

    if isinstance(o, (bool, np.bool_)):
        return bool(o)
    if isinstance(o, (int, np.integer)):
        return int(o)
    if isinstance(o, (float, np.floating)):
        f = float(o)
        if math.isnan(f):
            return {"$f": "nan"}
        if math.isinf(f):
            return {"$f": "inf" if f > 0 else "-inf"}
        return f
    if o is None or isinstance(o, str):
        return o
    if isinstance(o, np.ndarray):
        return {"$a": enc(o.tolist())}
    if isinstance(o, (list, tuple)):
        return [enc(x) for x in o]
    if isinstance(o, dict):
        return {str(k): enc(v) for k, v in o.items()}
    if isinstance(o, (set, frozenset)):
        return sorted(enc(x) for x in o)
    return repr(o)


def dec(o: Any) -> Any:
    if isinstance(o, dict):
        if set(o) == {"$f"}:
            return float(o["$f"])
        if set(o) == {"$a"}:
            import numpy as np

            return np.array(dec(o["$a"]), dtype=float)
        return {k: dec(v) for k, v in o.items()}
    if isinstance(o, list):
        return [dec(x) for x in o]
    return o


def canon(o: Any) -> str:
    return json.dumps(enc(o), sort_keys=True, separators=(",", ":"))


def digest(o: Any) -> bytes:
    return hashlib.blake2b(canon(o).encode(), digest_size=8).digest()


# ------------------------------------------------------------------------------------------------
class Violation(AssertionError):
    """Raised by Ctx.fail for a case that breaks the property (drives Hypothesis' shrinker)."""


class SkipCase(Exception):
    """Abort the current case quietly (known finding, duplicate bucket, shrink budget)."""


class HarnessError(Exception):
    pass


class _AbortShrink(BaseException):
    """Shrink budget exhausted: leave the Hypothesis engine at once (BaseException so that it is not swallowed)."""


def _innermost_frame(tb) -> tuple[str, str, int]:
    last = traceback.extract_tb(tb)[-1]
    return last.filename, last.name, last.lineno or 0


def _in_fuzzylite(tb) -> str | None:
    """Return 'file:function' of the innermost frame if it lies in the fuzzylite package under test,
    or if any frame below the checks lies in it and the innermost is in numpy/stdlib."""
    frames = traceback.extract_tb(tb)
    pkg = os.path.join(os.path.realpath(env.REPO), "fuzzylite") + os.sep
    for fr in reversed(frames):
        if not os.path.isabs(fr.filename):
            continue  # compiled third-party module reporting a relative source path (eg, black: "src/black/...")
        fn = os.path.realpath(fr.filename)
        if fn.startswith(pkg):
            return f"{os.path.basename(fn)}:{fr.name}"
        if fn.startswith(ROOT + os.sep):
            return None  # innermost non-library frame is harness code
    return None


class Ctx:
    def __init__(self, pid: str, tier: str, seed: int, shard: int = 0, known: list | None = None):
        self.pid = pid
        self.tier = tier
        self.seed = seed
        self.shard = shard
        self.t0 = time.time()
        self.evaluations = 0
        self.classes: Counter = Counter()
        self.nt_hashes: set[bytes] = set()
        self.nt_bulk_n = 0
        self.first_samples: list = []
        self.low_samples: list[tuple[bytes, Any]] = []  # bottom-k by hash: deterministic, ~uniform
        self.violations: dict[str, dict] = {}  # bucket -> record
        self.known_hits: Counter = Counter()
        self.known_examples: dict[str, Any] = {}
        self.known = known or []
        self.matchers: list[Callable[[str, Any, Any], str | None]] = []
        self.notes: list[str] = []
        self.exhaustive_parts: list[str] = []
        self.budget_exhausted = False
        # per-round shrink state
        self._target: str | None = None
        self._t_first = 0.0
        self._failing: set[bytes] = set()
        self._last: dict | None = None
        self._last_size = 0
        self._prop = ""
        self.shrink_budget = 15.0 if tier == "quick" else 120.0
        self.deadline: float | None = None

    # --- measuring -------------------------------------------------------------------------------
    def ev(self, n: int = 1) -> None:
        self.evaluations += n

    def cls(self, name: str, n: int = 1) -> None:
        self.classes[name] += n

    def nt(self, key: Any, sample: Any = None) -> None:
        """Mark a case as non-trivial by the property's rule; distinct by the hash of `key`."""
        h = digest(key)
        if h in self.nt_hashes:
            return
        self.nt_hashes.add(h)
        s = enc(sample if sample is not None else key)
        if len(self.first_samples) < 2:
            self.first_samples.append(s)
            return
        if len(self.low_samples) < 4 or h < self.low_samples[-1][0]:
            self.low_samples.append((h, s))
            self.low_samples.sort(key=lambda t: t[0])
            del self.low_samples[4:]

    def nt_bulk(self, n: int, sample: Any = None) -> None:
        """n further non-trivial cases that are distinct by construction (enumerated grid points)."""
        self.nt_bulk_n += int(n)
        if sample is not None and len(self.first_samples) < 2:
            self.first_samples.append(enc(sample))

    def note(self, s: str) -> None:
        if s not in self.notes:
            self.notes.append(s)

    # --- failing ---------------------------------------------------------------------------------
    def fail(self, label: str, case: Any, detail: Any = None) -> "NoReturn":  # type: ignore[name-defined]
        for m in self.matchers:
            kid = m(label, case, detail)
            if kid:
                self.known_hits[kid] += 1
                self.known_examples.setdefault(kid, enc({"case": case, "detail": detail}))
                raise SkipCase()
        if label in self.violations and self._target != label:
            self.classes["dup_violation:" + label] += 1
            raise SkipCase()
        if self._target is None:
            self._target = label
            self._t_first = time.time()
        elif label != self._target:
            raise SkipCase()
        h = digest(case)
        self._failing.add(h)
        rec = {"property": self.pid, "prop": self._prop, "label": label, "case": enc(case), "detail": enc(detail)}
        size = len(json.dumps(rec["case"]))
        if self._last is None or size <= self._last_size:
            self._last, self._last_size = rec, size
        if time.time() - self._t_first > self.shrink_budget:
            raise _AbortShrink()
        raise Violation(label)

    def check(self, cond: bool, label: str, case: Any, detail: Any = None) -> None:
        if not cond:
            self.fail(label, case, detail)

    def run_case(self, check: Callable[["Ctx", Any], None], case: Any) -> None:
        """Run one generated case with fl.settings snapshot/restore and exception classification."""
        import fuzzylite as fl

        snap = dict(vars(fl.settings))
        try:
            check(self, case)
        except (Violation, HarnessError):
            raise
        except SkipCase:
            return
        except Exception as ex:
            where = _in_fuzzylite(ex.__traceback__)
            if where is None:
                raise HarnessError(
                    f"{type(ex).__name__}: {ex}\n{''.join(traceback.format_tb(ex.__traceback__))}"
                    f"case={canon(case)[:2000]}") from ex
            try:
                self.fail(f"unexpected-{type(ex).__name__}@{where}", case,
                          {"exception": f"{type(ex).__name__}: {ex}"})
            except SkipCase:
                return
        finally:
            cur = vars(fl.settings)
            for k in list(cur):
                if k not in snap:
                    del cur[k]
            cur.update(snap)

    def _begin(self, prop: str) -> None:
        self._prop = prop
        self._target = None
        self._failing = set()
        self._last = None

    def _record(self) -> None:
        rec = self._last
        assert rec is not None
        old = self.violations.get(rec["label"])
        if old is None or len(json.dumps(rec["case"])) < len(json.dumps(old["case"])):
            self.violations[rec["label"]] = rec

    # --- drivers ---------------------------------------------------------------------------------
    def hyp(self, prop: str, strategy, check: Callable[["Ctx", Any], None], examples: int,
            stateful: bool = False) -> None:
        """Drive `check` with Hypothesis over `strategy`; shrink and record each failing bucket."""
        import hypothesis
        from hypothesis import HealthCheck, Phase, given, settings

        flaky_retries = 0
        for rnd in range(3 if self.tier == "quick" else MAX_ROOT_CAUSES):
            self._begin(prop)
            sd = int.from_bytes(hashlib.blake2b(f"{self.seed}/{self.shard}/{prop}/{rnd}".encode(),
                                                digest_size=6).digest(), "big")

            @hypothesis.seed(sd)
            @settings(max_examples=examples, database=None, deadline=None, report_multiple_bugs=False,
                      print_blob=False, derandomize=False,
                      phases=[Phase.generate, Phase.shrink],
                      suppress_health_check=[HealthCheck.too_slow, HealthCheck.data_too_large,
                                             HealthCheck.filter_too_much, HealthCheck.large_base_example])
            @given(strategy)
            def test(case):
                if self.deadline is not None and time.time() > self.deadline and self._target is None:
                    self.budget_exhausted = True
                    return
                self.run_case(check, case)

            try:
                test()
            except (Violation, _AbortShrink):
                self._record()
                continue
            except HarnessError:
                raise
            except hypothesis.errors.HypothesisException as ex:
                if self._last is not None:
                    # shrinking was cut short (budget => Hypothesis sees 'flaky' behaviour); the recorded case did fail
                    self.classes["shrink_interrupted"] += 1
                    self._record()
                    continue
                if isinstance(ex, hypothesis.errors.FlakyStrategyDefinition) and flaky_retries < 2:
                    # a generator whose alternatives depended on Hypothesis-internal state: no statement about the
                    # code under test; the cases before it were checked. Explore again from the next derived seed.
                    flaky_retries += 1
                    self.classes["generator_inconsistency_retried"] += 1
                    self.note(f"{prop}: Hypothesis reported inconsistent data generation in round {rnd}; "
                              f"the round was repeated from the next derived seed")
                    continue
                raise HarnessError(f"hypothesis: {type(ex).__name__}: {ex}\n"
                                   f"{''.join(traceback.format_tb(ex.__traceback__))[-6000:]}") from ex
            break
        self._begin("")

    def direct(self, prop: str, check: Callable[["Ctx", Any], None], cases: Iterable[Any]) -> None:
        """Drive `check` over explicitly enumerated cases (exhaustive parts, regression corpus)."""
        for case in cases:
            self._begin(prop)
            try:
                self.run_case(check, case)
            except Violation:
                self._record()
        self._begin("")

    # --- (de)serialisation for shards ----------------------------------------------------------
    def export(self) -> dict:
        return dict(evaluations=self.evaluations, classes=dict(self.classes), nt=self.nt_hashes,
                    nt_bulk=self.nt_bulk_n, first=self.first_samples, low=self.low_samples,
                    violations=self.violations, known_hits=dict(self.known_hits),
                    known_examples=self.known_examples, notes=self.notes,
                    exhaustive=self.exhaustive_parts, budget=self.budget_exhausted)

    def merge(self, d: dict) -> None:
        self.evaluations += d["evaluations"]
        self.classes.update(d["classes"])
        self.nt_hashes |= d["nt"]
        self.nt_bulk_n += d["nt_bulk"]
        for s in d["first"]:
            if len(self.first_samples) < 2:
                self.first_samples.append(s)
        self.low_samples = sorted(self.low_samples + d["low"], key=lambda t: t[0])[:4]
        for b, rec in d["violations"].items():
            old = self.violations.get(b)
            if old is None or len(json.dumps(rec["case"])) < len(json.dumps(old["case"])):
                self.violations[b] = rec
        self.known_hits.update(d["known_hits"])
        for k, v in d["known_examples"].items():
            self.known_examples.setdefault(k, v)
        for n in d["notes"]:
            self.note(n)
        for e in d["exhaustive"]:
            if e not in self.exhaustive_parts:
                self.exhaustive_parts.append(e)
        self.budget_exhausted |= d["budget"]


def _shard_entry(args):
    modname, fname, pid, tier, seed, shard, nshards, known, kwargs = args
    try:
        import importlib

        mod = importlib.import_module(modname)
        ctx = Ctx(pid, tier, seed, shard=shard, known=known)
        if hasattr(mod, "setup_ctx"):
            mod.setup_ctx(ctx)
        getattr(mod, fname)(ctx, shard, nshards, **kwargs)
        return ("ok", ctx.export())
    except HarnessError as ex:
        return ("harness", str(ex))
    except BaseException as ex:  # noqa: BLE001
        return ("harness", f"{type(ex).__name__}: {ex}\n{traceback.format_exc()}")


def run_sharded(ctx: Ctx, mod, fname: str, nshards: int, **kwargs) -> None:
    """Run mod.<fname>(child_ctx, shard, nshards, **kwargs) in `nshards` processes and merge."""
    if nshards <= 1:
        getattr(mod, fname)(ctx, 0, 1, **kwargs)
        return
    args = [(mod.__name__, fname, ctx.pid, ctx.tier, ctx.seed, i + 1, nshards, ctx.known, kwargs)
            for i in range(nshards)]
    mp = multiprocessing.get_context("fork")
    # maxtasksperchild=1: every shard starts from a fresh fork of the parent, so nothing a shard leaves behind in its
    # process (Hypothesis's strategy cache, numpy error state) can reach another shard, whichever worker picks it up
    with mp.Pool(min(nshards, os.cpu_count() or 1), maxtasksperchild=1) as pool:
        for status, payload in pool.imap_unordered(_shard_entry, args):
            if status != "ok":
                raise HarnessError(payload)
            ctx.merge(payload)


# ------------------------------------------------------------------------------------------------
def load_known(pid: str) -> list[dict]:
    path = os.path.join(ROOT, "known_findings.json")
    if not os.path.exists(path):
        return []
    with open(path) as f:
        data = json.load(f)
    return [k for k in data.get("open", []) if k.get("property") == pid]


def finish(ctx: Ctx, mod) -> int:
    wall = time.time() - ctx.t0
    samples = ctx.first_samples + [s for _, s in ctx.low_samples]
    distinct = len(ctx.nt_hashes) + ctx.nt_bulk_n
    cov = {
        "evaluations": int(ctx.evaluations),
        "distinct_nontrivial": int(distinct),
        "rule": getattr(mod, "RULE", ""),
        "samples": samples[:6],
        "classes": {k: int(v) for k, v in sorted(ctx.classes.items())},
        "known_finding_hits": {k: int(v) for k, v in sorted(ctx.known_hits.items())},
        "budget_exhausted": bool(ctx.budget_exhausted),
        "notes": ctx.notes,
    }
    if ctx.exhaustive_parts:
        cov["exhaustive"] = True
        cov["exhaustive_subdomains"] = ctx.exhaustive_parts
    evidence = {
        "property_id": ctx.pid,
        "tier": ctx.tier,
        "seed": int(ctx.seed),
        "level": getattr(mod, "LEVEL", "exploration"),
        "coverage": cov,
        "assumptions": list(getattr(mod, "ASSUMPTIONS", [])),
        "wall_s": round(wall, 2),
        "violations": len(ctx.violations),
    }
    os.makedirs(os.path.join(ROOT, "evidence"), exist_ok=True)
    tmp = os.path.join(ROOT, "evidence", f".{ctx.pid}.json.tmp")
    with open(tmp, "w") as f:
        json.dump(evidence, f, indent=1, sort_keys=False)
        f.write("\n")
    os.replace(tmp, os.path.join(ROOT, "evidence", f"{ctx.pid}.json"))

    for k in ctx.known:
        kid = k["id"]
        if ctx.known_hits.get(kid):
            print(f"KNOWN-FINDING: property={ctx.pid} {kid}: {k['what']} (re-observed "
                  f"{ctx.known_hits[kid]}x in this run)")
        else:
            print(f"KNOWN-FINDING: property={ctx.pid} {kid}: {k['what']} (listed; not re-observed in this run)")
    rc = 0
    if ctx.violations:
        vdir = os.path.join(ROOT, "violations", ctx.pid)
        os.makedirs(vdir, exist_ok=True)
        for label, rec in sorted(ctx.violations.items()):
            slug = "".join(c if c.isalnum() else "_" for c in label)[:60]
            h = hashlib.blake2b(json.dumps(rec, sort_keys=True).encode(), digest_size=5).hexdigest()
            path = os.path.join(vdir, f"{slug}-{h}.json")
            with open(path, "w") as f:
                json.dump(rec, f, indent=1)
            print(f"VIOLATION property={ctx.pid} replay={path}")
            print(f"  label: {label}")
            print(f"  case: {json.dumps(rec['case'])[:1500]}")
            print(f"  detail: {json.dumps(rec['detail'])[:1500]}")
        rc = 1
    print(f"{ctx.pid} tier={ctx.tier} seed={ctx.seed} evaluations={ctx.evaluations} "
          f"distinct_nontrivial={distinct} violations={len(ctx.violations)} wall={wall:.1f}s")
    sys.stdout.flush()
    return rc


def main(argv: list[str]) -> int:
    import argparse
    import importlib

    ap = argparse.ArgumentParser()
    ap.add_argument("pid")
    ap.add_argument("--tier", default=os.environ.get("VERIF_TIER", "quick"), choices=["quick", "thorough"])
    ap.add_argument("--replay", default=None)
    ap.add_argument("--seed", type=int, default=None)
    a = ap.parse_args(argv)
    if os.environ.get("PYTHONHASHSEED") != "0":
        os.environ["PYTHONHASHSEED"] = "0"
        os.execv(sys.executable, [sys.executable] + sys.argv)
    try:
        seed = a.seed if a.seed is not None else int(os.environ.get("VERIF_SEED", "1") or "1")
    except ValueError:
        seed = 1
    pid = a.pid.upper()
    import warnings

    warnings.filterwarnings("ignore")  # numpy overflow/invalid warnings of the code under test are not findings
    try:
        env.ensure_deps()
        env.import_fuzzylite()
        sys.path.insert(0, ROOT)
        mods = [f[:-3] for f in sorted(os.listdir(os.path.join(ROOT, "checks")))
                if f.lower().startswith(pid.lower() + "_") and f.endswith(".py")]
        if not mods:
            env.harness_error(f"no check module for {pid}")
        mod = importlib.import_module("checks." + mods[0])
        ctx = Ctx(pid, a.tier, seed, known=load_known(pid))
        if hasattr(mod, "setup_ctx"):
            mod.setup_ctx(ctx)
        if a.replay:
            with open(a.replay) as f:
                rec = json.load(f)
            mod.replay(ctx, rec["prop"], dec(rec["case"]))
            rc = 1 if ctx.violations else 0
            for label, r in ctx.violations.items():
                print(f"VIOLATION property={pid} replay={a.replay}")
                print(f"  label: {label}\n  detail: {json.dumps(r['detail'])[:1500]}")
            if not ctx.violations:
                print(f"replay {a.replay}: property holds on this case"
                      + (f" (known finding hits: {dict(ctx.known_hits)})" if ctx.known_hits else ""))
            return rc
        # regression corpus first
        rdir = os.path.join(ROOT, "replays", pid)
        if os.path.isdir(rdir):
            for fn in sorted(os.listdir(rdir)):
                if fn.endswith(".json"):
                    with open(os.path.join(rdir, fn)) as f:
                        rec = json.load(f)
                    mod.replay(ctx, rec["prop"], dec(rec["case"]))
                    ctx.cls("regression_replays")
        mod.run(ctx)
        return finish(ctx, mod)
    except HarnessError as ex:
        sys.stderr.write(f"HARNESS-ERROR: {ex}\n")
        return 2
