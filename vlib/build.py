"""spec -> fuzzylite objects, through public constructors only."""

from __future__ import annotations

import fuzzylite as fl


def mk_term(spec: dict, engine=None):
    cls, p, name = spec["cls"], spec["p"], spec.get("name", "t")
    h = float(spec.get("h", 1.0))
    if cls == "Constant":
        return fl.Constant(name, float(p[0]))
    if cls == "Discrete":
        return fl.Discrete(name, fl.Discrete.to_xy([float(v) for v in p[0::2]], [float(v) for v in p[1::2]]), h)
    if cls == "Linear":
        return fl.Linear(name, [float(v) for v in p], engine)
    if cls == "Function":
        # loaded by Engine(...) through update_reference, exactly as for an imported engine
        return fl.Function(name, spec["formula"], variables=dict(spec.get("vars") or {}), engine=engine, load=False)
    return getattr(fl, cls)(name, *[float(v) for v in p], h)


def mk_norm(name, kind):
    if name is None:
        return None
    fm = fl.settings.factory_manager
    return (fm.tnorm if kind == "t" else fm.snorm).construct(name)


def mk_defuzzifier(d):
    if d is None:
        return None
    if "resolution" in d:
        return getattr(fl, d["cls"])(int(d["resolution"]))
    return getattr(fl, d["cls"])(d.get("type", "Automatic"))


def mk_activation(a):
    if a is None:
        return None
    cls = a["cls"]
    if cls in ("General", "Proportional"):
        return getattr(fl, cls)()
    if cls in ("First", "Last"):
        return getattr(fl, cls)(int(a["rules"]), float(a["threshold"]))
    if cls in ("Highest", "Lowest"):
        return getattr(fl, cls)(int(a["rules"]))
    if cls == "Threshold":
        return fl.Threshold(a["comparator"], float(a["threshold"]))
    raise KeyError(cls)


def mk_input(v):
    return fl.InputVariable(name=v["name"], description=v.get("description", ""), enabled=v.get("enabled", True),
                            minimum=float(v["min"]), maximum=float(v["max"]), lock_range=v.get("lock_range", False),
                            terms=[mk_term(t) for t in v["terms"]])


def mk_output(v):
    return fl.OutputVariable(name=v["name"], description=v.get("description", ""), enabled=v.get("enabled", True),
                             minimum=float(v["min"]), maximum=float(v["max"]), lock_range=v.get("lock_range", False),
                             lock_previous=v.get("lock_previous", False), default_value=float(v.get("default", fl.nan)),
                             aggregation=mk_norm(v.get("aggregation"), "s"),
                             defuzzifier=mk_defuzzifier(v.get("defuzzifier")),
                             terms=[mk_term(t) for t in v["terms"]])


def mk_rule(r, decimals=3, explicit_weight=False):
    from . import gen

    rule = fl.Rule.create(r["text"] if "text" in r else gen.rule_text(r, decimals))
    if explicit_weight and r.get("weight") is not None:
        rule.weight = float(r["weight"])  # as a program would set it (the parser is then only exercised on import)
    if not r.get("enabled", True):
        rule.enabled = False
    return rule


def mk_block(b, decimals=3, explicit_weights=False):
    return fl.RuleBlock(name=b["name"], description=b.get("description", ""), enabled=b.get("enabled", True),
                        conjunction=mk_norm(b.get("conjunction"), "t"), disjunction=mk_norm(b.get("disjunction"), "s"),
                        implication=mk_norm(b.get("implication"), "t"), activation=mk_activation(b.get("activation")),
                        rules=[mk_rule(r, decimals, explicit_weights) for r in b["rules"]])


def mk_engine(spec, decimals=3, explicit_weights=False):
    """Build through the public constructors; Engine(...) loads the rules and updates term references."""
    return fl.Engine(name=spec.get("name", "E"), description=spec.get("description", ""),
                     input_variables=[mk_input(v) for v in spec["inputs"]],
                     output_variables=[mk_output(v) for v in spec["outputs"]],
                     rule_blocks=[mk_block(b, decimals, explicit_weights) for b in spec["blocks"]])


def mk_engine_incremental(spec, decimals=3, explicit_weights=False):
    """The same engine assembled step by step, as a program does: empty engine, variables appended, term references
    updated, rule blocks appended and loaded."""
    e = fl.Engine(name=spec.get("name", "E"), description=spec.get("description", ""))
    for v in spec["inputs"]:
        e.input_variables.append(mk_input(v))
    for v in spec["outputs"]:
        e.output_variables.append(mk_output(v))
    for v in e.variables:
        for t in v.terms:
            t.update_reference(e)
    for b in spec["blocks"]:
        rb = mk_block(b, decimals, explicit_weights)
        e.rule_blocks.append(rb)
        rb.load_rules(e)
    return e
