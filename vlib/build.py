"""spec -> fuzzylite objects, through public constructors only."""

from __future__ import annotations

import fuzzylite as fl


def mk_term(spec: dict, engine=None):
    cls, p, name = spec["cls"], spec["p"], spec.get("name", "t")
    h = float(spec.get("h", 1.0))
    if cls == "Constant":
        return fl.Constant(name, float(p[0]))
    if cls == "Discrete":
        return fl.Discrete(name, fl.Discrete.to_xy([float(v) for v in p[0::2]], [float(v) for v in p[1::2]]), h)
    if cls == "Linear":
        return fl.Linear(name, [float(v) for v in p], engine)
    if cls == "Function":
        t = fl.Function(name, spec["formula"], variables=dict(spec.get("vars") or {}), engine=engine, load=False)
        return t
    return getattr(fl, cls)(name, *[float(v) for v in p], h)
