"""Pointwise scalar membership of *fresh* term objects built from specs (used as the leaf oracle by checks
whose subject is not the membership functions themselves; those are decided by C03)."""

from __future__ import annotations

import json

from . import build

_cache: dict = {}


def impl_mu(term: dict, x: float) -> float:
    key = json.dumps([term["cls"], term["p"], term.get("h", 1.0)], default=str)
    t = _cache.get(key)
    if t is None:
        if len(_cache) > 5000:
            _cache.clear()
        t = _cache[key] = build.mk_term(term)
    return float(t.membership(float(x)))
