"""Token- and line-level mutation of rule / FLL / formula texts, and the C16 outcome oracle.

Shared by checks/c16_malformed.py (Hypothesis draws the operation lists) and the atheris targets in fuzz/ (a
FuzzedDataProvider decodes bytes into the same operation lists). No randomness in here: every function is a pure
function of its arguments.
"""

from __future__ import annotations

RULE_KEYWORDS = ["if", "then", "is", "and", "or", "with"]
HEDGES = ["not", "very", "somewhat", "extremely", "seldom", "any"]
IN_VARS = {"Ambient": ["DARK", "MEDIUM", "BRIGHT"], "Speed": ["SLOW", "FAST"]}
OUT_VARS = {"Power": ["LOW", "HIGH"], "Fan": ["OFF", "ON"]}
UNKNOWN = ["Foo", "bar_9", "Ambiente", "dark", "Q", "Powe", "veryy", "x", "pi", "min", "Bare", "Bare is any"]
NUMBERS = ["0.5", "1.0", "0", "1e-3", "nan", "inf", "-1", "0,5", "1.0.0", "abc", "--1", "1_0", ".5", "5."]
PUNCT = ["(", ")", "( (", ") )", ",", "#", ":", "()", ""]

RULE_POOL = (RULE_KEYWORDS + HEDGES + list(IN_VARS) + list(OUT_VARS) + [t for v in IN_VARS.values() for t in v]
             + [t for v in OUT_VARS.values() for t in v] + UNKNOWN + NUMBERS + PUNCT)

ALLOWED = (SyntaxError, ValueError, KeyError)
INTERNAL = (TypeError, AttributeError, IndexError, RecursionError, NameError, AssertionError)  # NameError incl. UnboundLocalError


def mutate_tokens(tokens: list[str], ops: list[list], pool: list[str]) -> list[str]:
    """ops: [kind, i, j] with kind in delete|duplicate|substitute|insert|truncate|swap|tight (ints index mod len)."""
    toks = list(tokens)
    for op in ops:
        kind, i, j = op[0], int(op[1]), int(op[2])
        n = len(toks)
        if kind == "insert":
            toks.insert(i % (n + 1), pool[j % len(pool)])
            continue
        if n == 0:
            continue
        if kind == "delete":
            del toks[i % n]
        elif kind == "duplicate":
            toks.insert(i % n, toks[i % n])
        elif kind == "substitute":
            toks[i % n] = pool[j % len(pool)]
        elif kind == "truncate":
            del toks[i % (n + 1):]
        elif kind == "swap":
            a, b = i % n, j % n
            toks[a], toks[b] = toks[b], toks[a]
        elif kind == "glue":  # remove the space between two tokens
            a = i % n
            if a + 1 < n:
                toks[a:a + 2] = [toks[a] + toks[a + 1]]
    return toks


FLL_KEYS = ["Engine", "InputVariable", "OutputVariable", "RuleBlock", "description", "enabled", "range", "lock-range",
            "lock-previous", "default", "aggregation", "defuzzifier", "term", "conjunction", "disjunction",
            "implication", "activation", "rule", "foo", "", "Term", "rules"]
FLL_VALUES = ["true", "false", "maybe", "none", "Maximum", "Minimum", "Centroid", "Centroid 100", "Centroid abc",
              "WeightedAverage Foo", "WeightedAverage TakagiSugeno", "General", "First 1", "First 1 0.5 3",
              "Threshold >> 0.5", "Threshold > x", "Highest 1.5", "0.000 1.000", "0.000", "a b c", "nan", "inf -inf",
              "a Triangle 0 1", "a Triangle 0 1 2 3 4", "a Foo 1 2", "a Discrete 0 1 2", "a Function", "a Function x +",
              "a Linear", "a Linear x y", "a", "", "if", "if Ambient is DARK then Power is", "1 2 Triangle",
              "a Constant", "a Rectangle inf nan", "a Function ( x", "Proportional 3", "Lowest -1", "Bisector 0"]
LINE_POOL = ["", "#", "# comment", ":", "::", "key", "key value", ": value", "rule: if", "term:", "term: a",
             "InputVariable: Extra", "OutputVariable: Extra", "RuleBlock: Extra", "Engine: Again", "  enabled: maybe",
             "  range: 0", "  rule: if Extra is a then Extra is a", "\t", "InputVariable:", "  term: x Triangle 0 1 2"]


def mutate_lines(lines: list[str], ops: list[list]) -> list[str]:
    """Line-level ops: drop|dup|swap|truncate|insert|key|value|tokens (see below)."""
    out = list(lines)
    for op in ops:
        kind, i, j = op[0], int(op[1]), int(op[2])
        n = len(out)
        if kind == "insert":
            out.insert(i % (n + 1), LINE_POOL[j % len(LINE_POOL)])
            continue
        if n == 0:
            continue
        a = i % n
        if kind == "drop":
            del out[a]
        elif kind == "dup":
            out.insert(a, out[a])
        elif kind == "swap":
            b = j % n
            out[a], out[b] = out[b], out[a]
        elif kind == "truncate":
            del out[a:]
        elif kind == "cut":  # truncate inside a line
            out[a] = out[a][: j % (len(out[a]) + 1)]
            del out[a + 1:]
        elif kind == "key":
            k, sep, v = out[a].partition(":")
            out[a] = (k[: len(k) - len(k.lstrip())] + FLL_KEYS[j % len(FLL_KEYS)] + sep + v) if sep else out[a] + ":"
        elif kind == "value":
            k, sep, v = out[a].partition(":")
            out[a] = k + ":" + " " + FLL_VALUES[j % len(FLL_VALUES)]
        elif kind == "tokdel":
            toks = out[a].split(" ")
            if toks:
                del toks[j % len(toks)]
            out[a] = " ".join(toks)
        elif kind == "tokdup":
            toks = out[a].split(" ")
            if toks:
                toks.insert(j % len(toks), toks[j % len(toks)])
            out[a] = " ".join(toks)
        elif kind == "tokword":
            toks = out[a].split(" ")
            if toks:
                toks[j % len(toks)] = ["abc", "1.5", "-", "Triangle", ":", "(", "nan", "if", ""][(i + j) % 9]
            out[a] = " ".join(toks)
        elif kind == "nocolon":
            out[a] = out[a].replace(":", " ", 1)
    return out


def classify(ex: BaseException) -> str:
    if isinstance(ex, ALLOWED) and not isinstance(ex, INTERNAL):
        return "rejected"
    if isinstance(ex, INTERNAL):
        return "internal"
    return "unclassified"
