"""Reference printer and evaluator for Function formulas (C17). Does not import fuzzylite.

Trees:  {"k": "num", "v": float} | {"k": "var", "n": name} | {"k": "op", "n": symbol, "a": [children]}
        | {"k": "fn", "n": name, "a": [children]}          (optional "rp": True = redundant parentheses)

The operator table (precedence, associativity, arity) and the meaning of every element are written here from the
library's documentation, independently of fuzzylite.factory.FunctionFactory.
"""

from __future__ import annotations

import math

import numpy as np

# precedence: larger binds tighter
PREC = {"!": 6, "~": 6, "^": 5, "**": 5, ".-": 5, ".+": 5, "*": 4, "/": 4, "%": 4, "+": 3, "-": 3, "and": 2, "or": 1}
RIGHT = {"!", "~", "^", "**", ".-", ".+"}
UNARY = {"!", "~", ".-", ".+"}
BINARY_ARITH = ["^", "**", "*", "/", "%", "+", "-"]
LOGICAL = {"and", "or", "!"}
FN_ARITY = {"gt": 2, "ge": 2, "eq": 2, "neq": 2, "le": 2, "lt": 2, "min": 2, "max": 2, "acos": 1, "asin": 1, "atan": 1,
            "ceil": 1, "cos": 1, "cosh": 1, "exp": 1, "abs": 1, "fabs": 1, "floor": 1, "log": 1, "log10": 1,
            "round": 1, "sin": 1, "sinh": 1, "sqrt": 1, "tan": 1, "tanh": 1, "log1p": 1, "acosh": 1, "asinh": 1,
            "atanh": 1, "pow": 2, "atan2": 2, "fmod": 2, "pi": 0}
ARITY = dict(FN_ARITY)
for _o in PREC:
    ARITY[_o] = 1 if _o in UNARY else 2
RELATIONAL = ["gt", "ge", "eq", "neq", "le", "lt"]
DISCONTINUOUS = {"ceil", "floor", "round", "%", "fmod", "gt", "ge", "eq", "neq", "le", "lt", "and", "or", "!"}


class Unknown(Exception):
    """The reference declines to define this value (NaN operand of min/max, non-finite operand of a remainder)."""


# ------------------------------------------------------------------------------------------------ printing
def num_text(v: float) -> str:
    s = f"{v:.6f}".rstrip("0").rstrip(".")
    return s if s else "0"


def three_decimal(t) -> bool:
    """Do all literals of the tree survive printing with 3 decimals (what Node.postfix() prints)?"""
    if t["k"] == "num":
        return float(f"{t['v']:.3f}") == t["v"]
    return all(three_decimal(c) for c in t.get("a", []))


def perturbed(t, delta: float):
    """The same tree with every literal moved by delta (a near-identical twin sub-expression)."""
    if t["k"] == "num":
        return {"k": "num", "v": float(f"{t['v'] + delta:.6f}")}
    out = dict(t)
    if "a" in t:
        out["a"] = [perturbed(c, delta) for c in t["a"]]
    return out


def prec_of(t) -> int:
    if t["k"] == "op":
        return PREC[t["n"]]
    return 7


def to_text(t, tight: bool = False) -> str:
    """Minimal parentheses for the documented table (+ redundant ones where node['rp'])."""
    sp = "" if tight else " "

    def wrap(s):
        return f"({sp}{s}{sp})"

    k = t["k"]
    if k == "num":
        s = num_text(t["v"])
    elif k == "var":
        s = t["n"]
    elif k == "fn":
        if FN_ARITY[t["n"]] == 0:
            s = t["n"]
        else:
            s = f"{t['n']}{sp}({sp}" + f"{sp},{sp}".join(to_text(c, tight) for c in t["a"]) + f"{sp})"
    else:
        op = t["n"]
        p = PREC[op]
        word = op in ("and", "or")
        if op in UNARY:
            c = t["a"][0]
            cs = to_text(c, tight)
            if not c.get("rp") and prec_of(c) < p:
                cs = wrap(cs)
            s = f"{op}{sp}{cs}"
        else:
            l, r = t["a"]
            ls, rs = to_text(l, tight), to_text(r, tight)
            if not l.get("rp") and (prec_of(l) < p or (prec_of(l) == p and op in RIGHT)):
                ls = wrap(ls)
            if not r.get("rp") and (prec_of(r) < p or (prec_of(r) == p and op not in RIGHT)):
                rs = wrap(rs)
            gap = " " if word else sp
            s = f"{ls}{gap}{op}{gap}{rs}"
    return wrap(s) if t.get("rp") else s


def postfix(t) -> str:
    k = t["k"]
    if k == "num":
        return f"{t['v']:.3f}"
    if k == "var":
        return t["n"]
    return " ".join([postfix(c) for c in t["a"]] + [t["n"]])


def size(t) -> int:
    return 1 + sum(size(c) for c in t.get("a", []))


def ops_in(t) -> list[str]:
    out = [t["n"]] if t["k"] in ("op", "fn") else []
    for c in t.get("a", []):
        out += ops_in(c)
    return out


def vars_in(t) -> set[str]:
    if t["k"] == "var":
        return {t["n"]}
    out: set[str] = set()
    for c in t.get("a", []):
        out |= vars_in(c)
    return out


# ------------------------------------------------------------------------------------------------ evaluation
def _truth(a: float) -> bool:
    return a != 0.0  # NaN is truthy (as in numpy and Python)


def _eq(a, b):
    return a == b or (math.isnan(a) and math.isnan(b))


def _np1(f):
    def g(a):
        with np.errstate(all="ignore"):
            return float(f(np.float64(a)))

    return g


def _np2(f):
    def g(a, b):
        with np.errstate(all="ignore"):
            return float(f(np.float64(a), np.float64(b)))

    return g


def _minmax(f):
    def g(a, b):
        if math.isnan(a) or math.isnan(b):
            raise Unknown("NaN operand of min/max")
        if a == b == 0.0 and math.copysign(1.0, a) != math.copysign(1.0, b):
            raise Unknown("min/max of +0.0 and -0.0: either zero is a correct answer")
        return float(f(a, b))

    return g


def _rem(f):
    def g(a, b):
        if not (math.isfinite(a) and math.isfinite(b)):
            raise Unknown("non-finite operand of a remainder")
        with np.errstate(all="ignore"):
            return float(f(np.float64(a), np.float64(b)))

    return g


# primary table: IEEE semantics through numpy *scalar* kernels chosen here by documented meaning
NP = {
    "!": lambda a: float(not _truth(a)), "~": lambda a: -a, ".-": lambda a: -a, ".+": lambda a: +a,
    "^": _np2(np.float_power), "**": _np2(np.float_power), "pow": _np2(np.float_power),
    "*": lambda a, b: a * b, "/": _np2(np.true_divide), "%": _rem(np.remainder), "fmod": _rem(np.fmod),
    "+": lambda a, b: a + b, "-": lambda a, b: a - b,
    "and": lambda a, b: float(_truth(a) and _truth(b)), "or": lambda a, b: float(_truth(a) or _truth(b)),
    "gt": lambda a, b: float(a > b), "lt": lambda a, b: float(a < b),
    "ge": lambda a, b: float(a >= b or _eq(a, b)), "le": lambda a, b: float(a <= b or _eq(a, b)),
    "eq": lambda a, b: float(_eq(a, b)), "neq": lambda a, b: float(not _eq(a, b)),
    "min": _minmax(min), "max": _minmax(max),
    "acos": _np1(np.arccos), "asin": _np1(np.arcsin), "atan": _np1(np.arctan), "ceil": _np1(np.ceil),
    "cos": _np1(np.cos), "cosh": _np1(np.cosh), "exp": _np1(np.exp), "abs": _np1(np.fabs), "fabs": _np1(np.fabs),
    "floor": _np1(np.floor), "log": _np1(np.log), "log10": _np1(np.log10), "round": _np1(np.rint),
    "sin": _np1(np.sin), "sinh": _np1(np.sinh), "sqrt": _np1(np.sqrt), "tan": _np1(np.tan), "tanh": _np1(np.tanh),
    "log1p": _np1(np.log1p), "acosh": _np1(np.arccosh), "asinh": _np1(np.arcsinh), "atanh": _np1(np.arctanh),
    "atan2": _np2(np.arctan2), "pi": lambda: math.pi,
}


def _py_round(a):
    return float(round(a)) if math.isfinite(a) else a


def _py_int(f):
    return lambda a: float(f(a)) if math.isfinite(a) else a


# secondary table: Python `math` (raises on domain errors / overflow: then the cross-check is skipped for the case)
PY = dict(NP)
PY.update({
    "^": math.pow, "**": math.pow, "pow": math.pow, "/": lambda a, b: a / b,
    "%": lambda a, b: _rem(lambda p, q: float(p) % float(q))(a, b), "fmod": lambda a, b: _rem(math.fmod)(a, b),
    "acos": math.acos, "asin": math.asin, "atan": math.atan, "ceil": _py_int(math.ceil), "cos": math.cos,
    "cosh": math.cosh, "exp": math.exp, "abs": abs, "fabs": math.fabs, "floor": _py_int(math.floor),
    "log": math.log, "log10": math.log10, "round": _py_round, "sin": math.sin, "sinh": math.sinh, "sqrt": math.sqrt,
    "tan": math.tan, "tanh": math.tanh, "log1p": math.log1p, "acosh": math.acosh, "asinh": math.asinh,
    "atanh": math.atanh, "atan2": math.atan2,
})


def evaluate(t, env: dict[str, float], table=NP) -> float:
    k = t["k"]
    if k == "num":
        return float(t["v"])
    if k == "var":
        return float(env[t["n"]])
    args = [evaluate(c, env, table) for c in t["a"]]
    return float(table[t["n"]](*args))


def evaluate_py(t, env):
    """Secondary evaluation with Python's math; None when math raises (domain error, overflow)."""
    try:
        return evaluate(t, env, PY)
    except Unknown:
        raise
    except (ValueError, ZeroDivisionError, OverflowError):
        return None


def rpn(text: str, env: dict[str, float]) -> float:
    """Evaluate a postfix string with the reference table (arity from the documented table)."""
    stack: list[float] = []
    for tok in text.split():
        if tok in ARITY:
            n = ARITY[tok]
            if len(stack) < n:
                raise SyntaxError(f"postfix underflow at {tok}")
            args = stack[len(stack) - n:]
            del stack[len(stack) - n:]
            stack.append(float(NP[tok](*args)))
        else:
            try:
                stack.append(float(tok))
            except ValueError:
                stack.append(float(env[tok]))
    if len(stack) != 1:
        raise SyntaxError("postfix leaves %d values" % len(stack))
    return stack[0]


def postfix_well_typed(text: str) -> bool:
    """Statement's typing: results of and/or/! are used only under logical operators or as the final result."""
    stack: list[bool] = []
    for tok in text.split():
        if tok in ARITY:
            n = ARITY[tok]
            if len(stack) < n:
                return False
            args = stack[len(stack) - n:]
            del stack[len(stack) - n:]
            if tok not in LOGICAL and any(args):
                return False
            stack.append(tok in LOGICAL)
        else:
            stack.append(False)
    return len(stack) == 1
