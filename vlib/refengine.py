"""Reference interpreter of the documented inference pipeline, working on engine *specs* (plain data)
and never on rule text. Does not import fuzzylite. See DESIGN §4.

process(spec, row, prev) -> Result with per-output value, fuzzy contributions, rule degrees, and the
smallest margin of any discontinuous decision taken on a *computed* value (fragile-case protocol).
"""

from __future__ import annotations

import math

from . import refmath as rm

INF, NAN = math.inf, math.nan


class Undefined(Exception):
    """The documented pipeline does not define the result (e.g. Tsukamoto value outside (0,h))."""


class RefError(Exception):
    """The documented pipeline requires the engine to reject this configuration (kind = exception class name)."""

    def __init__(self, kind, msg=""):
        super().__init__(msg)
        self.kind = kind


class Trace:
    def __init__(self):
        self.margin = INF
        self.notes = []

    def note(self, m, what=""):
        if m < self.margin:
            self.margin = m
        if m < 1e-9:
            self.notes.append(what)


def nan_to_num(d: float) -> float:
    if math.isnan(d) or d == -INF:
        return 0.0
    if d == INF:
        return 1.0
    return d


def clip(v: float, lo: float, hi: float) -> float:
    if math.isnan(v):
        return v
    return min(max(v, lo), hi)


def norm(name, a, b, tr: Trace | None = None):
    if math.isnan(a) or math.isnan(b):
        # numpy semantics of the documented formulas with NaN operands
        return _norm_nan(name, a, b)
    if tr is not None:
        tr.note(rm.norm_margin(name, a, b), f"{name}({a},{b})")
    return rm.norm(name, a, b)


def _norm_nan(name, a, b):
    # np.where(cond, x, y) with NaN in cond -> comparisons False
    if name == "DrasticProduct":
        mx = NAN  # np.maximum propagates NaN
        return 0.0 if not (mx == 1.0) else NAN
    if name == "DrasticSum":
        return 1.0
    if name == "HamacherProduct":
        return NAN  # a + b != 0 is True for NaN -> formula -> NaN
    if name == "NilpotentMinimum":
        return 0.0
    if name == "NilpotentMaximum":
        return 1.0
    if name == "HamacherSum":
        return NAN
    return NAN


def hedges_apply(hedges, d):
    """hedges written left to right; the one nearest the term applies first."""
    for h in reversed(hedges):
        d = rm.hedge(h, d) if not (math.isnan(d) and h != "any") else NAN
    return d


def group(contribs, agg, tr=None):
    """contribs: list of (term_name, degree) -> ordered dict name -> aggregated degree (first-appearance order)."""
    out = {}
    for name, d in contribs:
        d = nan_to_num(d)
        if name not in out:
            out[name] = d
        else:
            out[name] = nan_to_num(norm(agg or "UnboundedSum", out[name], d, tr))
    return out


def term_value(term, x, inputs_row, mu=None):
    """membership of a term spec at x (Linear: uses the engine's input values)."""
    cls = term["cls"]
    if cls == "Linear":
        co = [float(c) for c in term["p"]]
        n = len(inputs_row)
        if len(co) not in (n, n + 1):
            raise RefError("ValueError", "coefficients")
        s = 0.0
        for c, v in zip(co[:n], inputs_row):
            s = s + c * v
        return s + (co[n] if len(co) > n else 0.0)
    if cls == "Function":
        ref = term.get("ref")
        if ref and ref[0] == "lin":  # c1 * <input k> + c2
            return float(ref[1]) * inputs_row[int(ref[3])] + float(ref[2])
        if ref and ref[0] == "xmul":  # x * c
            return x * float(ref[1])
        raise Undefined("Function terms are evaluated by refformula")
    return (mu or rm.mu)(term, x)


class Ref:
    def __init__(self, spec, leaky_consequent=False, mu=None):
        """mu(term_spec, x) -> membership; default: closed forms of refmath. Checks whose subject is not the
        membership functions themselves (C03's business) pass the library's own pointwise scalar evaluation."""
        self.spec = spec
        self.leaky = leaky_consequent
        self.mu = mu or rm.mu
        self.disabled_counts = True  # a disabled rule selected by First/Last/Highest/Lowest occupies one of the n slots
        self.in_by = {v["name"]: v for v in spec["inputs"]}
        self.out_by = {v["name"]: v for v in spec["outputs"]}

    # ---- antecedent ----
    def prop(self, p, values, fuzzy, tr):
        name = p["var"]
        var = self.in_by.get(name) or self.out_by[name]
        if not var.get("enabled", True):
            return 0.0
        hs = p["hedges"]
        if hs and hs[-1] == "any":
            return hedges_apply(hs, NAN)
        term = next(t for t in var["terms"] if t["name"] == p["term"])
        if name in self.in_by:
            d = term_value(term, values[name], [values[v["name"]] for v in self.spec["inputs"]], self.mu)
        else:
            d = group(fuzzy[name], var.get("aggregation"), tr).get(term["name"], 0.0)
        return hedges_apply(hs, d)

    def ante(self, a, conj, disj, values, fuzzy, tr):
        if "op" not in a:
            return self.prop(a, values, fuzzy, tr)
        l = self.ante(a["l"], conj, disj, values, fuzzy, tr)
        r = self.ante(a["r"], conj, disj, values, fuzzy, tr)
        op = conj if a["op"] == "and" else disj
        if op is None:
            raise RefError("ValueError", f"missing {'conjunction' if a['op'] == 'and' else 'disjunction'}")
        return norm(op, l, r, tr)

    def rule_degree(self, r, block, values, fuzzy, tr):
        w = 1.0 if r.get("weight") is None else float(r["weight"])
        return w * self.ante(r["ante"], block.get("conjunction"), block.get("disjunction"), values, fuzzy, tr)

    # ---- consequent ----
    def trigger(self, r, degree, block, fuzzy):
        """Append (term, degree, implication) for each conclusion on an enabled variable. Returns the list added."""
        added = []
        if not r.get("enabled", True):
            return added
        carried = degree
        for c in r["cons"]:
            var = self.out_by[c["var"]]
            if not var.get("enabled", True):
                continue
            if self.leaky:
                carried = hedges_apply(c["hedges"], carried)
                d = carried
            else:
                d = hedges_apply(c["hedges"], degree)
            d = nan_to_num(d)
            fuzzy[c["var"]].append((c["term"], d, block.get("implication")))
            added.append((c["var"], c["term"], d))
        return added

    # ---- activation ----
    def activate(self, block, values, fuzzy, tr):
        """Returns (degrees[list, None for unloaded], triggered[list bool])."""
        act = block["activation"]
        cls = act["cls"]
        rules = block["rules"]
        n = len(rules)
        degs = [None] * n
        trig = [False] * n

        def fire(i):
            self.trigger(rules[i], degs[i], block, _F(fuzzy))
            trig[i] = bool(rules[i].get("enabled", True) and degs[i] > 0.0)

        order = range(n)
        if cls == "Last":
            order = range(n - 1, -1, -1)
        if cls == "General":
            for i in order:
                if rules[i].get("loaded", True):
                    degs[i] = self.rule_degree(rules[i], block, values, _G(fuzzy), tr)
                    fire(i)
            return degs, trig
        if cls in ("First", "Last"):
            k = 0
            for i in order:
                if not rules[i].get("loaded", True):
                    continue
                degs[i] = self.rule_degree(rules[i], block, values, _G(fuzzy), tr)
                d, t = degs[i], float(act["threshold"])
                tr.note(abs(d - t) if d != t else INF, "first/last threshold")
                tr.note(abs(d) if d != 0.0 else INF, "first/last zero")
                if k < int(act["rules"]) and d > 0.0 and d >= t:
                    fire(i)
                    if self.disabled_counts or rules[i].get("enabled", True):
                        k += 1
            return degs, trig
        if cls in ("Highest", "Lowest", "Proportional"):
            cand = []
            for i in order:
                if not rules[i].get("loaded", True):
                    continue
                degs[i] = self.rule_degree(rules[i], block, values, _G(fuzzy), tr)
                if degs[i] > 0.0:
                    cand.append(i)
            if cls == "Proportional":
                s = 0.0
                for i in cand:
                    s += degs[i]
                for i in cand:
                    degs[i] = degs[i] / s
                    fire(i)
                return degs, trig
            srt = sorted(cand, key=(lambda i: (-degs[i], i)) if cls == "Highest" else (lambda i: (degs[i], i)))
            for a, b in zip(srt, srt[1:]):
                if degs[a] != degs[b]:
                    tr.note(abs(degs[a] - degs[b]), "highest/lowest order")
            if not self.disabled_counts:
                srt = [i for i in srt if rules[i].get("enabled", True)]
            for i in srt[: max(0, int(act["rules"]))]:
                fire(i)
            return degs, trig
        if cls == "Threshold":
            cmp = {"<": lambda a, b: a < b, "<=": lambda a, b: a <= b, "==": lambda a, b: a == b,
                   "!=": lambda a, b: a != b, ">=": lambda a, b: a >= b, ">": lambda a, b: a > b}[act["comparator"]]
            for i in order:
                if not rules[i].get("loaded", True):
                    continue
                degs[i] = self.rule_degree(rules[i], block, values, _G(fuzzy), tr)
                t = float(act["threshold"])
                tr.note(abs(degs[i] - t) if degs[i] != t else INF, "threshold")
                if cmp(degs[i], t):
                    fire(i)
            return degs, trig
        raise KeyError(cls)

    # ---- defuzzification ----
    def sample(self, var, contribs, tr=None):
        lo, hi = float(var["min"]), float(var["max"])
        r = int(var["defuzzifier"]["resolution"])
        dx = (hi - lo) / r
        xs = [lo + (i + 0.5) * dx for i in range(r)]
        if contribs and var.get("aggregation") is None:
            raise RefError("ValueError", "missing aggregation")
        ys = []
        terms = {t["name"]: t for t in var["terms"]}
        for x in xs:
            y = 0.0
            for (tn, d, imp) in contribs:
                if imp is None:
                    raise RefError("ValueError", "missing implication")
                y = norm(var["aggregation"], y, norm(imp, d, self.mu(terms[tn], x), tr), tr)
            ys.append(y)
        return xs, ys

    def defuzz(self, var, contribs, inputs_row, tr):
        dz = var["defuzzifier"]
        if dz is None:
            raise RefError("ValueError", "missing defuzzifier")
        if "resolution" in dz:
            xs, ys = self.sample(var, contribs, tr)
            return integral(dz["cls"], xs, ys)
        return self.weighted(var, contribs, inputs_row, tr)

    def weighted(self, var, contribs, inputs_row, tr):
        dz = var["defuzzifier"]
        terms = {t["name"]: t for t in var["terms"]}
        g = group([(tn, d) for (tn, d, _imp) in contribs], var.get("aggregation"), tr)
        if not contribs:
            return NAN, {"kind": None}
        kind = dz.get("type", "Automatic")
        if kind == "Automatic":
            kinds = set()
            for (tn, _d, _i) in contribs:
                c = terms[tn]["cls"]
                kinds.add("TakagiSugeno" if c in ("Constant", "Linear", "Function")
                          else "Tsukamoto" if c in rm.MONOTONIC else "Automatic")
            if len(kinds) > 1:
                raise RefError("TypeError", "mixed term kinds")
            kind = kinds.pop()
        ws, wz, zmax = 0.0, 0.0, 0.0
        for tn, w in g.items():
            t = terms[tn]
            if kind == "Tsukamoto":
                if t["cls"] not in rm.MONOTONIC:
                    raise RefError("RuntimeError", "tsukamoto on non-monotonic term")
                if w == 0.0:
                    continue  # "an activation with degree 0 never changes the result"
                h = float(t.get("h", 1.0))
                if not (0.0 < w < h) and t["cls"] != "Ramp":
                    raise Undefined(f"Tsukamoto value of {t['cls']} at degree {w} outside (0,{h})")
                try:
                    z = rm.tsukamoto(t, w)
                except (ValueError, ZeroDivisionError, OverflowError) as ex:
                    raise Undefined(str(ex)) from None
            else:
                z = term_value(t, w, inputs_row, self.mu)
                if w == 0.0 and not math.isfinite(z):
                    continue
            wz += w * z
            ws += w
            if math.isfinite(z):
                zmax = max(zmax, abs(z) * (max(1.0, w) if dz["cls"] == "WeightedSum" else 1.0))
        if dz["cls"] == "WeightedAverage":
            val = wz / ws if ws != 0.0 else NAN
        else:
            val = wz if ws != 0.0 else NAN
        return val, {"kind": kind, "weights": g, "zmax": zmax * (max(1, len(g)) if dz["cls"] == "WeightedSum" else 1)}

    # ---- whole pipeline ----
    def process(self, row, prev=None):
        """row: list of input values; prev: dict output name -> last value held (for lock-previous)."""
        spec = self.spec
        tr = Trace()
        values = {}
        for v, x in zip(spec["inputs"], row):
            x = float(x)
            values[v["name"]] = clip(x, float(v["min"]), float(v["max"])) if v.get("lock_range") else x
        inputs_row = [values[v["name"]] for v in spec["inputs"]]
        fuzzy = {v["name"]: [] for v in spec["outputs"]}
        degrees, triggered = [], []
        for b in spec["blocks"]:
            if not b.get("enabled", True):
                degrees.append(None)
                triggered.append(None)
                continue
            d, t = self.activate(b, values, fuzzy, tr)
            degrees.append(d)
            triggered.append(t)
        outputs, info = {}, {}
        for v in spec["outputs"]:
            name = v["name"]
            if not v.get("enabled", True):
                outputs[name] = None  # untouched
                continue
            try:
                res = self.defuzz(v, fuzzy[name], inputs_row, tr)
            except Undefined as ex:
                outputs[name] = ("undefined", str(ex))
                continue
            val, inf = res if isinstance(res, tuple) else (res, {})
            info[name] = inf
            p = NAN if prev is None else prev.get(name, NAN)
            if math.isnan(val) and v.get("lock_previous"):
                val = p
            dflt = float(v.get("default", NAN))
            if math.isnan(val) and not math.isnan(dflt):
                val = dflt
            if v.get("lock_range"):
                val = clip(val, float(v["min"]), float(v["max"]))
            outputs[name] = val
        return {"outputs": outputs, "fuzzy": fuzzy, "degrees": degrees, "triggered": triggered, "margin": tr.margin,
                "notes": tr.notes, "info": info, "values": values}


class _F:
    """fuzzy dict view used by trigger(): appends (term, degree, implication)."""

    def __init__(self, d):
        self.d = d

    def __getitem__(self, k):
        return self.d[k]


class _G(dict):
    """fuzzy view for antecedents: name -> list of (term, degree)."""

    def __init__(self, d):
        super().__init__({k: [(t, dg) for (t, dg, _i) in v] for k, v in d.items()})


# ------------------------------------------------------------------------------------------------
def integral(cls, xs, ys):
    """Reference integral defuzzifiers on the sampled set (xs midpoints, ys membership)."""
    if any(not math.isfinite(y) for y in ys):
        # non-finite membership samples only arise from degrees > 1 (UnboundedSum) fed to quotient norms:
        # the documented defuzzifiers say nothing about such sets
        raise Undefined("non-finite membership sample")
    if cls == "Centroid":
        s = math.fsum(ys)
        if s == 0.0:
            return NAN, {"kind": "centroid"}
        return math.fsum(x * y for x, y in zip(xs, ys)) / s, {"kind": "centroid"}
    if cls == "Bisector":
        c, acc = [], 0.0
        for y in ys:
            acc += y
            c.append(acc)
        if acc == 0.0:
            return NAN, {"kind": "bisector"}
        dev = [abs(ci / acc - 0.5) for ci in c]
        m = min(dev)
        tight = [x for x, d in zip(xs, dev) if d == m]
        loose = [x for x, d in zip(xs, dev) if d <= m + 1e-9]
        return sum(tight) / len(tight), {"kind": "bisector", "loose": (min(loose), max(loose)),
                                         "tie": len(loose) != len(tight)}
    mx = max(ys) if ys else 0.0
    if not (mx > 0.0):
        return NAN, {"kind": "max"}
    tight = [x for x, y in zip(xs, ys) if y == mx]
    loose = [x for x, y in zip(xs, ys) if y >= mx - 1e-9 * max(1.0, mx)]
    inf = {"kind": "max", "loose": (min(loose), max(loose)), "tie": len(loose) != len(tight)}
    if cls == "SmallestOfMaximum":
        return min(tight), inf
    if cls == "LargestOfMaximum":
        return max(tight), inf
    if cls == "MeanOfMaximum":
        return sum(tight) / len(tight), inf
    raise KeyError(cls)


def integral_agree(cls, got, want, info, lo, hi):
    """'ok' | 'tie' (accepted through the loose tie set) | 'bad'."""
    if math.isnan(want) or math.isnan(got):
        return "ok" if (math.isnan(want) and math.isnan(got)) else "bad"
    scale = max(abs(lo), abs(hi)) + (hi - lo)
    if cls == "Centroid":
        return "ok" if abs(got - want) <= 1e-9 * scale else "bad"
    if abs(got - want) <= 1e-12 * scale:
        return "ok"
    loose = info.get("loose")
    if loose and info.get("tie") and loose[0] - 1e-12 * scale <= got <= loose[1] + 1e-12 * scale:
        return "tie"
    return "bad"
