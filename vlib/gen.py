"""Hypothesis strategies over *specs* (plain data). See DESIGN §3.

Numeric regimes:  "dec"  — k/1000 as nearest double (round-trips through '%.3f'),
                  "dy"   — k/64 (exact +,-,*),
                  "free" — arbitrary doubles with bounded conditioning (|loc| <= 1e3, widths in [1e-3, 1e3]).
"""

from __future__ import annotations

import math

from hypothesis import strategies as st

from . import refmath

INF = math.inf
REGIMES = ["dec", "dy", "free"]
UNIT = {"dec": 1000, "dy": 64, "half": 2}  # "half": k/2, representable at every decimals setting >= 1 (C14/C15)


def regime():
    return st.sampled_from(REGIMES)


# ------------------------------------------------------------------------------------------------
# numbers
# ------------------------------------------------------------------------------------------------
def _grid_loc(u: int):
    return st.one_of(st.integers(-3 * u, 3 * u), st.integers(-20 * u, 20 * u), st.integers(-1000 * u, 1000 * u))


def _grid_width(u: int):
    return st.one_of(st.integers(1, 8), st.integers(1, 4 * u), st.integers(1, 50 * u), st.integers(1, 1000 * u))


def loc(rg: str):
    if rg == "free":
        return st.one_of(st.floats(-3, 3), st.floats(-20, 20), st.floats(-1000, 1000)).map(lambda v: v + 0.0)
    u = UNIT[rg]
    return _grid_loc(u).map(lambda k: k / u)


def width(rg: str):
    """strictly positive scale"""
    if rg == "free":
        return st.one_of(st.floats(1e-3, 1e-2), st.floats(0.05, 5), st.floats(1e-3, 1e3))
    u = UNIT[rg]
    return _grid_width(u).map(lambda k: k / u)


@st.composite
def increasing(draw, rg: str, n: int, strict_mask=None):
    """n locations v0 <= v1 <= ... ; strict_mask[i] True => v[i] < v[i+1] (default all strict)."""
    strict_mask = strict_mask or [True] * (n - 1)
    if rg == "free":
        v = [draw(loc(rg))]
        for i in range(n - 1):
            w = draw(width(rg)) if strict_mask[i] else draw(st.one_of(st.just(0.0), width(rg)))
            nxt = v[-1] + w
            if strict_mask[i] and not nxt > v[-1]:
                nxt = math.nextafter(v[-1], INF)
            v.append(nxt)
        return v
    u = UNIT[rg]
    k = [draw(_grid_loc(u))]
    for i in range(n - 1):
        w = draw(_grid_width(u)) if strict_mask[i] else draw(st.one_of(st.just(0), _grid_width(u)))
        k.append(k[-1] + w)
    return [x / u for x in k]


def height(rg: str = "dec"):
    if rg == "free":
        return st.one_of(st.just(1.0), st.floats(0.01, 1.0), st.integers(1, 1000).map(lambda k: k / 1000))
    if rg == "dy":
        return st.one_of(st.just(1.0), st.integers(1, 64).map(lambda k: k / 64))
    if rg == "half":
        return st.sampled_from([1.0, 1.0, 0.5])
    return st.one_of(st.just(1.0), st.integers(1, 1000).map(lambda k: k / 1000))


def unit_degree():
    sp = [0.0, 1.0, 0.5, math.nextafter(0.5, 0), math.nextafter(0.5, 1), 0.25, 0.75]
    # positive degrees below 2^-60 are excluded: products with them underflow (a representation limit)
    return st.one_of(st.floats(2.0 ** -60, 1), st.sampled_from(sp), st.integers(0, 64).map(lambda k: k / 64),
                     st.integers(0, 1000).map(lambda k: k / 1000))


# ------------------------------------------------------------------------------------------------
# names
# ------------------------------------------------------------------------------------------------
RESERVED = {"if", "then", "is", "and", "or", "with", "any", "extremely", "not", "seldom", "somewhat", "very", "x",
            "none", "nan", "inf", "pi", "e", "min", "max", "abs", "round", "log", "exp", "sin", "cos", "tan", "gt",
            "ge", "eq", "neq", "le", "lt", "pow", "fmod", "atan2", "floor", "ceil", "sqrt", "acos", "asin", "atan",
            "cosh", "sinh", "tanh", "log10", "log1p", "acosh", "asinh", "atanh"}

VAR_NAMES = ["A", "B", "C", "temp", "speed", "in_1", "Ambient", "obstacle", "v2", "mSteer"]
OUT_NAMES = ["Y", "Z", "W", "power", "out_1", "tip", "steer", "o2"]
TERM_NAMES = ["low", "mid", "high", "t1", "t2", "t3", "t4", "LEFT", "Right", "cold", "warm", "hot", "big_1", "s", "zz"]


# ------------------------------------------------------------------------------------------------
# terms
# ------------------------------------------------------------------------------------------------
@st.composite
def shape_params(draw, cls: str, rg: str):
    L, W = loc(rg), width(rg)
    if cls in ("Arc", "Ramp", "Rectangle", "SemiEllipse", "Concave"):
        a, b = draw(increasing(rg, 2))
        return [a, b] if draw(st.booleans()) else [b, a]
    if cls in ("SShape", "ZShape"):
        return draw(increasing(rg, 2))
    if cls == "Bell":
        slope = draw(st.sampled_from([0.5, 1.0, 1.5, 2.0, 3.0, 4.5, 8.0]) if rg != "free" else st.floats(0.25, 8.0))
        return [draw(L), draw(W), slope]
    if cls == "Binary":
        return [draw(L), draw(st.sampled_from([INF, -INF]))]
    if cls in ("Cosine", "Spike", "Gaussian"):
        return [draw(L), draw(W)]
    if cls == "GaussianProduct":
        a, b = draw(increasing(rg, 2, [False]))
        return [a, draw(W), b, draw(W)]
    if cls == "PiShape":
        return draw(increasing(rg, 4, [True, False, True]))
    if cls == "Sigmoid":
        s = draw(slope_mag(rg))
        return [draw(L), s if draw(st.booleans()) else -s]
    if cls in ("SigmoidDifference", "SigmoidProduct"):
        left, right = draw(increasing(rg, 2))
        rising = draw(slope_mag(rg))
        falling = rising if draw(st.integers(0, 3)) else draw(slope_mag(rg))  # equal magnitudes favoured
        return [left, rising, falling if cls == "SigmoidDifference" else -falling, right]
    if cls == "Trapezoid":
        mask = [draw(st.booleans()), draw(st.booleans()), draw(st.booleans())]
        if not any(mask):
            mask[draw(st.integers(0, 2))] = True
        a, b, c, d = draw(increasing(rg, 4, mask))
        k = draw(st.integers(0, 7))
        if k == 0:
            a = -INF
        elif k == 1:
            d = INF
        elif k == 2:
            a, d = -INF, INF
        return [a, b, c, d]
    if cls == "Triangle":
        mask = [draw(st.booleans()), draw(st.booleans())]
        if not any(mask):
            mask[draw(st.integers(0, 1))] = True
        a, b, c = draw(increasing(rg, 3, mask))
        k = draw(st.integers(0, 7))
        if k == 0:
            a = -INF
        elif k == 1:
            c = INF
        elif k == 2:
            a, c = -INF, INF
        return [a, b, c]
    if cls == "Discrete":
        n = draw(st.integers(2, 8))
        xs = draw(increasing(rg, n))
        ys = draw(st.lists(unit_y(rg), min_size=n, max_size=n))
        out = []
        for x, y in zip(xs, ys):
            out += [x, y]
        return out
    if cls == "Constant":
        return [draw(L)]
    raise KeyError(cls)


def unit_y(rg: str):
    if rg == "free":
        return st.one_of(st.floats(0, 1), st.sampled_from([0.0, 1.0]))
    u = UNIT[rg]
    return st.integers(0, u).map(lambda k: k / u)


def slope_mag(rg: str):
    if rg == "free":
        return st.floats(0.05, 50.0)
    if rg == "half":
        return st.sampled_from([0.5, 1.0, 2.0, 5.0, 10.0, 30.0])
    return st.sampled_from([0.125, 0.5, 1.0, 2.0, 5.0, 10.0, 30.0])


@st.composite
def shape_term(draw, cls=None, rg=None, name=None, heights=True):
    rg = rg or draw(regime())
    cls = cls or draw(st.sampled_from(refmath.SHAPES))
    p = draw(shape_params(cls, rg))
    h = draw(height(rg)) if heights and cls != "Constant" else 1.0
    return {"cls": cls, "p": p, "h": h, "name": name or "t", "rg": rg}


def x_values(spec: dict):
    """Input values for a term: interior, every breakpoint and its two neighbours, outside, +-inf, NaN."""
    bps = [b for b in refmath.breakpoints(spec) if math.isfinite(b)]
    fin = [v for v in spec["p"] if math.isfinite(v)] if spec["cls"] != "Discrete" else spec["p"][0::2]
    lo, hi = (min(fin), max(fin)) if fin else (-1.0, 1.0)
    if spec["cls"] in ("Bell", "Cosine", "Spike", "Gaussian"):
        c, w = spec["p"][0], abs(spec["p"][1])
        lo, hi = c - 3 * w, c + 3 * w
    elif spec["cls"] == "Sigmoid":
        c, s = spec["p"]
        lo, hi = c - 8 / abs(s), c + 8 / abs(s)
    elif spec["cls"] in ("SigmoidDifference", "SigmoidProduct"):
        lo, hi = spec["p"][0] - 8 / abs(spec["p"][1]), spec["p"][3] + 8 / abs(spec["p"][2])
    elif spec["cls"] == "GaussianProduct":
        lo, hi = spec["p"][0] - 3 * spec["p"][1], spec["p"][2] + 3 * spec["p"][3]
    span = max(hi - lo, 1e-3)
    near = []
    for b in bps:
        near += [b, math.nextafter(b, -INF), math.nextafter(b, INF)]
    opts = [st.floats(lo, hi) if lo < hi else st.just(lo),
            st.floats(lo - span, hi + span),
            st.sampled_from([INF, -INF, math.nan, 0.0, lo - 10 * span, hi + 10 * span])]
    if near:
        opts.append(st.sampled_from(near))
        opts.append(st.sampled_from(near))
    return st.one_of(*[o.map(_same) for o in opts])


def _same(v):
    """Identity map. st.floats/st.integers with equal bounds are one cached object, and one_of() drops repeated
    objects: whether two terms with equal extents gave one alternative or two depended on the state of Hypothesis's
    strategy cache (=> FlakyStrategyDefinition at large example counts). A mapped strategy is always a new object."""
    return v


# ------------------------------------------------------------------------------------------------
# variables, rules, engines
# ------------------------------------------------------------------------------------------------
INTEGRAL = ["Bisector", "Centroid", "LargestOfMaximum", "MeanOfMaximum", "SmallestOfMaximum"]
WEIGHTED = ["WeightedAverage", "WeightedSum"]
RESOLUTIONS = [1, 2, 3, 5, 10, 17, 64, 100]
TS_CLASSES = ["Constant", "Linear"]
NONMONO = [c for c in refmath.SHAPES if c not in refmath.MONOTONIC]


def _grid_pad(rg, lo, hi, draw):
    if rg == "free":
        p = draw(st.one_of(st.just(0.0), width(rg)))
        return lo - p, hi + draw(st.one_of(st.just(0.0), width(rg)))
    u = UNIT[rg]
    a = int(round(lo * u)) - draw(st.one_of(st.just(0), _grid_width(u)))
    b = int(round(hi * u)) + draw(st.one_of(st.just(0), _grid_width(u)))
    if b <= a:
        b = a + 1
    return a / u, b / u


def term_extent(t):
    if t["cls"] in ("Constant", "Linear", "Function"):
        return []
    return [b for b in refmath.breakpoints(t) if math.isfinite(b)]


@st.composite
def variable_range(draw, terms, rg):
    pts = [b for t in terms for b in term_extent(t)]
    if not pts:
        lo, hi = draw(increasing(rg, 2))
        return lo, hi
    lo, hi = min(pts), max(pts)
    if draw(st.integers(0, 9)) == 0:  # range cutting through the terms
        return draw(increasing(rg, 2))
    lo, hi = _grid_pad(rg, lo, hi, draw)
    if not hi > lo:
        hi = lo + 1.0
    return lo, hi


@st.composite
def input_variable(draw, name, rg, classes=None, nterms=(1, 4), flags=True):
    n = draw(st.integers(*nterms))
    names = draw(st.permutations(TERM_NAMES))[:n]
    terms = [draw(shape_term(cls=draw(st.sampled_from(classes or refmath.SHAPES)), rg=rg, name=nm)) for nm in names]
    lo, hi = draw(variable_range(terms, rg))
    return {"name": name, "description": "", "enabled": draw(st.sampled_from([True] * 7 + [False])) if flags else True,
            "min": lo, "max": hi, "lock_range": draw(st.sampled_from([False, False, False, True])) if flags else False,
            "terms": terms}


@st.composite
def defuzzifier(draw, kind):
    if kind == "integral":
        return {"cls": draw(st.sampled_from(INTEGRAL)),
                "resolution": draw(st.sampled_from(RESOLUTIONS + [1000] if draw(st.integers(0, 19)) == 0 else RESOLUTIONS))}
    return {"cls": draw(st.sampled_from(WEIGHTED)), "type": draw(st.sampled_from(kind))}


@st.composite
def output_variable(draw, name, rg, profile, n_inputs, nterms=(1, 4), flags=True, functions=None):
    """functions: list of input variable names => Takagi-Sugeno outputs may hold Function terms over them."""
    n = draw(st.integers(*nterms))
    names = draw(st.permutations(TERM_NAMES))[:n]
    terms = []
    if profile in ("mamdani", "larsen"):
        terms = [draw(shape_term(rg=rg, name=nm)) for nm in names]
        dz = draw(defuzzifier("integral"))
        agg = draw(st.sampled_from(refmath.SNORMS))
    elif profile == "ts":
        for nm in names:
            if functions and draw(st.integers(0, 2)) == 0:
                c1, c2 = draw(st.integers(0, 50)) / 8, draw(st.integers(0, 50)) / 8
                k_in = draw(st.integers(0, n_inputs - 1))
                terms.append({"cls": "Function", "formula": f"{c1:.3f} * {functions[k_in]} + {c2:.3f}", "p": [],
                              "h": 1.0, "name": nm, "ref": ["lin", c1, c2, k_in]})
            elif draw(st.booleans()):
                terms.append({"cls": "Constant", "p": [draw(loc(rg))], "h": 1.0, "name": nm})
            else:
                k = n_inputs + draw(st.integers(0, 1))
                terms.append({"cls": "Linear", "p": [draw(loc(rg)) for _ in range(k)], "h": 1.0, "name": nm})
        dz = draw(defuzzifier(["Automatic", "TakagiSugeno"]))
        agg = draw(st.sampled_from(refmath.SNORMS + [None, None]))
    elif profile == "tsukamoto":
        terms = [draw(shape_term(cls=draw(st.sampled_from(refmath.MONOTONIC)), rg=rg, name=nm)) for nm in names]
        dz = draw(defuzzifier(["Automatic", "Tsukamoto"]))
        agg = draw(st.sampled_from(refmath.SNORMS + [None, None]))
    else:  # inverse tsukamoto
        terms = [draw(shape_term(cls=draw(st.sampled_from(NONMONO)), rg=rg, name=nm)) for nm in names]
        dz = draw(defuzzifier(["Automatic"]))
        agg = draw(st.sampled_from(refmath.SNORMS + [None, None]))
    lo, hi = draw(variable_range(terms, rg))
    dflt = math.nan
    lock_prev = False
    lock_range = False
    enabled = True
    if flags:
        k = draw(st.integers(0, 5))
        if k == 0:
            dflt = draw(loc(rg))
        elif k == 1:
            dflt = lo if rg != "free" else lo + 0.25 * (hi - lo)
        lock_prev = draw(st.sampled_from([False, False, True]))
        lock_range = draw(st.sampled_from([False, False, True]))
        enabled = draw(st.sampled_from([True] * 9 + [False]))
    return {"name": name, "description": "", "enabled": enabled, "min": lo, "max": hi, "lock_range": lock_range,
            "lock_previous": lock_prev, "default": dflt, "aggregation": agg, "defuzzifier": dz, "terms": terms}


HEDGE_POOL = ["not", "very", "somewhat", "extremely", "seldom"]


@st.composite
def proposition(draw, variables, max_hedges=3, allow_any=True):
    """variables: list of (name, [term names])"""
    v, tnames = draw(st.sampled_from(variables))
    nh = draw(st.sampled_from([0, 0, 0, 1, 1, 2, 3][: 4 + max_hedges] if max_hedges else [0]))
    hedges = [draw(st.sampled_from(HEDGE_POOL)) for _ in range(nh)]
    if allow_any and draw(st.integers(0, 11)) == 0:
        return {"var": v, "hedges": hedges + ["any"], "term": None}
    return {"var": v, "hedges": hedges, "term": draw(st.sampled_from(tnames))}


@st.composite
def antecedent(draw, variables, depth=4, max_hedges=3, allow_any=True):
    def node(d, root=False):
        if d <= 0 or (not root and draw(st.integers(0, 3)) == 0):
            p = draw(proposition(variables, max_hedges, allow_any))
            p["rp"] = draw(st.integers(0, 5)) == 0
            return p
        return {"op": draw(st.sampled_from(["and", "or"])), "l": node(d - 1), "r": node(d - 1),
                "rp": draw(st.integers(0, 5)) == 0}

    d = draw(st.sampled_from([x for x in [0, 1, 1, 2, 2, 2, 3, 3, 4] if x <= depth]))
    return node(d, True)


def prop_text(p):
    toks = [p["var"], "is"] + list(p["hedges"]) + ([p["term"]] if p["term"] is not None else [])
    return " ".join(toks)


def ante_text(a, tight=False, top=True):
    """Print with minimal parentheses for the documented grammar (+ redundant ones where node['rp'])."""
    op, cl = ("(", ")") if tight else ("( ", " )")
    if "op" not in a:
        s = prop_text(a)
        return f"{op}{s}{cl}" if a.get("rp") else s

    def child(c, right):
        s = ante_text(c, tight, False)
        if "op" in c and not c.get("rp"):
            need = (a["op"] == "and" and c["op"] == "or") or (right and c["op"] == a["op"]) \
                or (right and a["op"] == "and" and c["op"] == "or")
            if need:
                s = f"{op}{s}{cl}"
        return s

    s = f"{child(a['l'], False)} {a['op']} {child(a['r'], True)}"
    return f"{op}{s}{cl}" if a.get("rp") else s


def ante_postfix(a):
    if "op" not in a:
        return prop_text(a)
    return f"{ante_postfix(a['l'])} {ante_postfix(a['r'])} {a['op']}"


def ante_props(a):
    if "op" not in a:
        return [a]
    return ante_props(a["l"]) + ante_props(a["r"])


def ante_ops(a):
    if "op" not in a:
        return []
    return [a["op"]] + ante_ops(a["l"]) + ante_ops(a["r"])


def weight_str(w, decimals=3):
    return f"{w:.{decimals}f}"


def rule_text(r, decimals=3):
    cons = " and ".join(prop_text(c) for c in r["cons"])
    s = f"if {ante_text(r['ante'], r.get('tight', False))} then {cons}"
    if r.get("weight") is not None:
        s += f" with {weight_str(r['weight'], decimals)}"
    return s


@st.composite
def rule(draw, in_vars, out_vars, ante_vars=None, depth=3, weights=True, cons_hedges=2, max_conc=3, flags=True,
         coarse_weights=False):
    a = draw(antecedent(ante_vars or in_vars, depth))
    nc = draw(st.sampled_from([1, 1, 1, 2, 2, 3][: 3 + max_conc]))
    cons = []
    for _ in range(nc):
        v, tn = draw(st.sampled_from(out_vars))
        nh = draw(st.sampled_from([0, 0, 0, 1, 2][: 3 + cons_hedges]))
        cons.append({"var": v, "hedges": [draw(st.sampled_from(HEDGE_POOL)) for _ in range(nh)],
                     "term": draw(st.sampled_from(tn))})
    w = None
    if weights and draw(st.integers(0, 2)) == 0:
        if coarse_weights:
            w = draw(st.sampled_from([0.0, 0.5, 1.0]))
        else:
            w = draw(st.one_of(st.integers(0, 1000).map(lambda k: k / 1000), st.sampled_from([0.0, 0.5, 1.0, 0.25])))
    return {"ante": a, "cons": cons, "weight": w, "enabled": draw(st.sampled_from([True] * 7 + [False])) if flags else True,
            "tight": draw(st.booleans())}


def activation_general():
    return st.just({"cls": "General"})


@st.composite
def engine(draw, profile=None, n_in=(1, 3), n_out=(1, 2), n_blocks=(1, 2), n_rules=(1, 6), rg=None, flags=True,
           out_in_ante=True, activation=None, depth=3, in_classes=None, weights=True, functions=False):
    rg = rg or draw(regime())
    profile = profile or draw(st.sampled_from(["mamdani", "mamdani", "ts", "tsukamoto", "inverse", "hybrid"]))
    ni = draw(st.integers(*n_in))
    no = draw(st.integers(*n_out))
    inames = draw(st.permutations(VAR_NAMES))[:ni]
    onames = draw(st.permutations(OUT_NAMES))[:no]
    inputs = [draw(input_variable(nm, rg, classes=in_classes, flags=flags)) for nm in inames]
    outputs = []
    for nm in onames:
        p = profile if profile != "hybrid" else draw(st.sampled_from(["mamdani", "ts", "tsukamoto", "inverse"]))
        outputs.append(draw(output_variable(nm, rg, p, ni, flags=flags, functions=list(inames) if functions else None)))
    ivars = [(v["name"], [t["name"] for t in v["terms"]]) for v in inputs]
    ovars = [(v["name"], [t["name"] for t in v["terms"]]) for v in outputs]
    blocks = []
    nb = draw(st.integers(*n_blocks))
    for b in range(nb):
        avars = ivars + (ovars if out_in_ante and draw(st.booleans()) else [])
        nr = draw(st.integers(*n_rules))
        rules = [draw(rule(ivars, ovars, ante_vars=avars if draw(st.integers(0, 2)) else ivars, depth=depth,
                           weights=weights, flags=flags, coarse_weights=(rg == "half"))) for _ in range(nr)]
        blocks.append({"name": f"rb{b + 1}", "description": "",
                       "enabled": draw(st.sampled_from([True] * 8 + [False])) if flags else True,
                       "conjunction": draw(st.sampled_from(refmath.TNORMS)),
                       "disjunction": draw(st.sampled_from(refmath.SNORMS)),
                       "implication": draw(st.sampled_from(refmath.TNORMS)),
                       "activation": draw(activation if activation is not None else activation_general()),
                       "rules": rules})
    return {"name": "E", "description": "", "inputs": inputs, "outputs": outputs, "blocks": blocks, "rg": rg,
            "profile": profile}


def input_value(var):
    """Strategy for one input value of an input variable spec (DESIGN §3 input-row union)."""
    opts = [st.floats(var["min"], var["max"]) if var["min"] < var["max"] else st.just(var["min"]),
            st.sampled_from([var["min"], var["max"], math.inf, -math.inf, math.nan,
                             var["min"] - 1.0, var["max"] + 1.0])]
    opts = [o.map(_same) for o in opts]
    for t in var["terms"]:
        opts.append(x_values(t))
    return st.one_of(*opts)


def input_row(spec):
    return st.tuples(*[input_value(v) for v in spec["inputs"]]).map(list)
