"""Hypothesis strategies over *specs* (plain data). See DESIGN §3.

Numeric regimes:  "dec"  — k/1000 as nearest double (round-trips through '%.3f'),
                  "dy"   — k/64 (exact +,-,*),
                  "free" — arbitrary doubles with bounded conditioning (|loc| <= 1e3, widths in [1e-3, 1e3]).
"""

from __future__ import annotations

import math

from hypothesis import strategies as st

from . import refmath

INF = math.inf
REGIMES = ["dec", "dy", "free"]
UNIT = {"dec": 1000, "dy": 64}


def regime():
    return st.sampled_from(REGIMES)


# ------------------------------------------------------------------------------------------------
# numbers
# ------------------------------------------------------------------------------------------------
def _grid_loc(u: int):
    return st.one_of(st.integers(-3 * u, 3 * u), st.integers(-20 * u, 20 * u), st.integers(-1000 * u, 1000 * u))


def _grid_width(u: int):
    return st.one_of(st.integers(1, 8), st.integers(1, 4 * u), st.integers(1, 50 * u), st.integers(1, 1000 * u))


def loc(rg: str):
    if rg == "free":
        return st.one_of(st.floats(-3, 3), st.floats(-20, 20), st.floats(-1000, 1000)).map(lambda v: v + 0.0)
    u = UNIT[rg]
    return _grid_loc(u).map(lambda k: k / u)


def width(rg: str):
    """strictly positive scale"""
    if rg == "free":
        return st.one_of(st.floats(1e-3, 1e-2), st.floats(0.05, 5), st.floats(1e-3, 1e3))
    u = UNIT[rg]
    return _grid_width(u).map(lambda k: k / u)


@st.composite
def increasing(draw, rg: str, n: int, strict_mask=None):
    """n locations v0 <= v1 <= ... ; strict_mask[i] True => v[i] < v[i+1] (default all strict)."""
    strict_mask = strict_mask or [True] * (n - 1)
    if rg == "free":
        v = [draw(loc(rg))]
        for i in range(n - 1):
            w = draw(width(rg)) if strict_mask[i] else draw(st.one_of(st.just(0.0), width(rg)))
            nxt = v[-1] + w
            if strict_mask[i] and not nxt > v[-1]:
                nxt = math.nextafter(v[-1], INF)
            v.append(nxt)
        return v
    u = UNIT[rg]
    k = [draw(_grid_loc(u))]
    for i in range(n - 1):
        w = draw(_grid_width(u)) if strict_mask[i] else draw(st.one_of(st.just(0), _grid_width(u)))
        k.append(k[-1] + w)
    return [x / u for x in k]


def height(rg: str = "dec"):
    if rg == "free":
        return st.one_of(st.just(1.0), st.floats(0.01, 1.0), st.integers(1, 1000).map(lambda k: k / 1000))
    if rg == "dy":
        return st.one_of(st.just(1.0), st.integers(1, 64).map(lambda k: k / 64))
    return st.one_of(st.just(1.0), st.integers(1, 1000).map(lambda k: k / 1000))


def unit_degree():
    sp = [0.0, 1.0, 0.5, math.nextafter(0.5, 0), math.nextafter(0.5, 1), 0.25, 0.75]
    return st.one_of(st.floats(0, 1), st.sampled_from(sp), st.integers(0, 64).map(lambda k: k / 64),
                     st.integers(0, 1000).map(lambda k: k / 1000))


# ------------------------------------------------------------------------------------------------
# names
# ------------------------------------------------------------------------------------------------
RESERVED = {"if", "then", "is", "and", "or", "with", "any", "extremely", "not", "seldom", "somewhat", "very", "x",
            "none", "nan", "inf", "pi", "e", "min", "max", "abs", "round", "log", "exp", "sin", "cos", "tan", "gt",
            "ge", "eq", "neq", "le", "lt", "pow", "fmod", "atan2", "floor", "ceil", "sqrt", "acos", "asin", "atan",
            "cosh", "sinh", "tanh", "log10", "log1p", "acosh", "asinh", "atanh"}

VAR_NAMES = ["A", "B", "C", "temp", "speed", "in_1", "Ambient", "obstacle", "v2", "mSteer"]
OUT_NAMES = ["Y", "Z", "W", "power", "out_1", "tip", "steer", "o2"]
TERM_NAMES = ["low", "mid", "high", "t1", "t2", "t3", "t4", "LEFT", "Right", "cold", "warm", "hot", "big_1", "s", "zz"]


# ------------------------------------------------------------------------------------------------
# terms
# ------------------------------------------------------------------------------------------------
@st.composite
def shape_params(draw, cls: str, rg: str):
    L, W = loc(rg), width(rg)
    if cls in ("Arc", "Ramp", "Rectangle", "SemiEllipse", "Concave"):
        a, b = draw(increasing(rg, 2))
        return [a, b] if draw(st.booleans()) else [b, a]
    if cls in ("SShape", "ZShape"):
        return draw(increasing(rg, 2))
    if cls == "Bell":
        slope = draw(st.sampled_from([0.5, 1.0, 1.5, 2.0, 3.0, 4.5, 8.0]) if rg != "free" else st.floats(0.25, 8.0))
        return [draw(L), draw(W), slope]
    if cls == "Binary":
        return [draw(L), draw(st.sampled_from([INF, -INF]))]
    if cls in ("Cosine", "Spike", "Gaussian"):
        return [draw(L), draw(W)]
    if cls == "GaussianProduct":
        a, b = draw(increasing(rg, 2, [False]))
        return [a, draw(W), b, draw(W)]
    if cls == "PiShape":
        return draw(increasing(rg, 4, [True, False, True]))
    if cls == "Sigmoid":
        s = draw(slope_mag(rg))
        return [draw(L), s if draw(st.booleans()) else -s]
    if cls in ("SigmoidDifference", "SigmoidProduct"):
        left, right = draw(increasing(rg, 2))
        rising = draw(slope_mag(rg))
        falling = rising if draw(st.integers(0, 3)) else draw(slope_mag(rg))  # equal magnitudes favoured
        return [left, rising, falling if cls == "SigmoidDifference" else -falling, right]
    if cls == "Trapezoid":
        mask = [draw(st.booleans()), draw(st.booleans()), draw(st.booleans())]
        if not any(mask):
            mask[draw(st.integers(0, 2))] = True
        a, b, c, d = draw(increasing(rg, 4, mask))
        k = draw(st.integers(0, 7))
        if k == 0:
            a = -INF
        elif k == 1:
            d = INF
        elif k == 2:
            a, d = -INF, INF
        return [a, b, c, d]
    if cls == "Triangle":
        mask = [draw(st.booleans()), draw(st.booleans())]
        if not any(mask):
            mask[draw(st.integers(0, 1))] = True
        a, b, c = draw(increasing(rg, 3, mask))
        k = draw(st.integers(0, 7))
        if k == 0:
            a = -INF
        elif k == 1:
            c = INF
        elif k == 2:
            a, c = -INF, INF
        return [a, b, c]
    if cls == "Discrete":
        n = draw(st.integers(2, 8))
        xs = draw(increasing(rg, n))
        ys = draw(st.lists(unit_y(rg), min_size=n, max_size=n))
        out = []
        for x, y in zip(xs, ys):
            out += [x, y]
        return out
    if cls == "Constant":
        return [draw(L)]
    raise KeyError(cls)


def unit_y(rg: str):
    if rg == "free":
        return st.one_of(st.floats(0, 1), st.sampled_from([0.0, 1.0]))
    u = UNIT[rg]
    return st.integers(0, u).map(lambda k: k / u)


def slope_mag(rg: str):
    if rg == "free":
        return st.floats(0.05, 50.0)
    return st.sampled_from([0.125, 0.5, 1.0, 2.0, 5.0, 10.0, 30.0])


@st.composite
def shape_term(draw, cls=None, rg=None, name=None, heights=True):
    rg = rg or draw(regime())
    cls = cls or draw(st.sampled_from(refmath.SHAPES))
    p = draw(shape_params(cls, rg))
    h = draw(height(rg)) if heights and cls != "Constant" else 1.0
    return {"cls": cls, "p": p, "h": h, "name": name or "t", "rg": rg}


def x_values(spec: dict):
    """Input values for a term: interior, every breakpoint and its two neighbours, outside, +-inf, NaN."""
    bps = [b for b in refmath.breakpoints(spec) if math.isfinite(b)]
    fin = [v for v in spec["p"] if math.isfinite(v)] if spec["cls"] != "Discrete" else spec["p"][0::2]
    lo, hi = (min(fin), max(fin)) if fin else (-1.0, 1.0)
    if spec["cls"] in ("Bell", "Cosine", "Spike", "Gaussian"):
        c, w = spec["p"][0], spec["p"][1]
        lo, hi = c - 3 * w, c + 3 * w
    elif spec["cls"] == "Sigmoid":
        c, s = spec["p"]
        lo, hi = c - 8 / abs(s), c + 8 / abs(s)
    elif spec["cls"] in ("SigmoidDifference", "SigmoidProduct"):
        lo, hi = spec["p"][0] - 8 / abs(spec["p"][1]), spec["p"][3] + 8 / abs(spec["p"][2])
    elif spec["cls"] == "GaussianProduct":
        lo, hi = spec["p"][0] - 3 * spec["p"][1], spec["p"][2] + 3 * spec["p"][3]
    span = max(hi - lo, 1e-3)
    near = []
    for b in bps:
        near += [b, math.nextafter(b, -INF), math.nextafter(b, INF)]
    opts = [st.floats(lo, hi) if lo < hi else st.just(lo),
            st.floats(lo - span, hi + span),
            st.sampled_from([INF, -INF, math.nan, 0.0, lo - 10 * span, hi + 10 * span])]
    if near:
        opts.append(st.sampled_from(near))
        opts.append(st.sampled_from(near))
    return st.one_of(*opts)
