"""Environment: make sure the checks import fuzzylite from the tree under test and that
third-party tooling (hypothesis, optionally atheris) is importable. Exit code 2 = harness error."""

from __future__ import annotations

import os
import subprocess
import sys

ROOT = os.path.dirname(os.path.dirname(os.path.abspath(__file__)))
DEPS = os.path.join(ROOT, ".deps")
WHEELS = "/opt/veriftools/wheels"
REPO = os.path.abspath(os.environ.get("VERIF_REPO", "/repo"))


def harness_error(msg: str) -> "NoReturn":  # type: ignore[name-defined]
    sys.stderr.write(f"HARNESS-ERROR: {msg}\n")
    sys.stderr.flush()
    os._exit(2)


def pip_install(pkgs: list[str], no_deps: bool = False) -> bool:
    os.makedirs(DEPS, exist_ok=True)
    cmd = [sys.executable, "-m", "pip", "install", "--quiet", "--no-index", "--find-links", WHEELS,
           "--target", DEPS] + (["--no-deps"] if no_deps else []) + pkgs
    env = dict(os.environ, PIP_NO_INDEX="1", PIP_DISABLE_PIP_VERSION_CHECK="1")
    return subprocess.call(cmd, env=env, stdout=sys.stderr) == 0


def ensure_deps(need_atheris: bool = False) -> None:
    if os.path.isdir(DEPS) and DEPS not in sys.path:
        sys.path.append(DEPS)  # after site-packages: /venv's own numpy etc. always win
    try:
        import hypothesis  # noqa: F401
    except ImportError:
        if not pip_install(["hypothesis", "attrs", "sortedcontainers"], no_deps=True):
            harness_error("cannot install hypothesis from the offline wheelhouse")
        if DEPS not in sys.path:
            sys.path.append(DEPS)
        import hypothesis  # noqa: F401
    if need_atheris:
        try:
            import atheris  # noqa: F401
        except ImportError:
            if not pip_install(["atheris"], no_deps=True):
                harness_error("cannot install atheris from the offline wheelhouse")
            if DEPS not in sys.path:
                sys.path.append(DEPS)


def import_fuzzylite():
    """Import fuzzylite from $VERIF_REPO (default /repo), never from a stale copy."""
    if not os.path.isdir(os.path.join(REPO, "fuzzylite")):
        harness_error(f"no fuzzylite package under {REPO}")
    sys.path.insert(0, REPO)
    try:
        import fuzzylite as fl
    except Exception as ex:  # the tree under test does not even import: harness error, not a violation
        harness_error(f"cannot import fuzzylite from {REPO}: {type(ex).__name__}: {ex}")
    here = os.path.realpath(os.path.dirname(fl.__file__))
    if not here.startswith(os.path.realpath(REPO) + os.sep):
        harness_error(f"fuzzylite imported from {here}, expected under {REPO}")
    return fl
